#!/bin/bash
# Usage: ./replay.sh <replay file>: rebuilds against /repo's working tree and replays one recorded run.
set -u
f="$(readlink -f "$1")"
cd "$(dirname "$0")/sim" || exit 2
export GOFLAGS=-mod=mod GOPROXY=off GOSUMDB=off GOTOOLCHAIN=local CGO_ENABLED=0
export VERIF_DIR="$(cd .. && pwd)"
GO=go1.26.8
command -v $GO >/dev/null 2>&1 || GO=/opt/veriftools/go1.26.8/bin/go
bin="bin/simcheck.r$$"
mkdir -p bin
$GO test -c -vet=off -tags verif -o "$bin" ./cmd/simcheck || { echo "infrastructure trouble: build failed"; exit 2; }
fbin=""
if grep -q '"engine": "F"' "$f"; then
  fbin="$PWD/bin/simcheck-f.r$$"
  ../tools/build_f.sh "$fbin" > /dev/null 2>&1 || { echo "infrastructure trouble: the instrumented (Engine F) build failed"; rm -f "$bin"; exit 2; }
fi
VERIF_F_BIN="$fbin" "./$bin" replay "$f"
rc=$?
rm -f "$bin" "$fbin"
exit $rc
