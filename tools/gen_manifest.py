#!/usr/bin/env python3
"""Writes /verif/MANIFEST.json from the table below (kept in one place so it stays valid)."""
import json, os, subprocess
V = os.path.dirname(os.path.dirname(os.path.abspath(__file__)))

hooks = subprocess.run(["git", "-C", "/repo", "log", "--format=%H %s"], capture_output=True, text=True).stdout.splitlines()
hook_commits = [l.split()[0] for l in hooks if " verif hook:" in " " + l]

S = "deterministic simulation with fault injection (Engine S: seeded sequential discrete-event simulation of the real repository over a simulated disk and header network; step-by-step refinement against an independent reference block tree; op-level minimised replay)"
G = "deterministic simulation with fault injection (Engine G: real goroutines in a testing/synctest bubble with a fake clock, simulator-owned connections, scripted peers and gated seams; seeded driver; invariants over recorded outputs)"

checks = {
 # id: (engine, category, text, note, technique)
 "C01": ("S", "exploration", "Seeded search over thousands of simulated histories per second (forks of forks, sibling/cousin overtakes by work, reorder/duplicate/drop from several peers, Clean/Save/restart with real and small prune depth); after every event the reported tip, work, height and the hash/header at every height are compared with an independent reference block tree. Sampling, not proof; reach is measured by probes in the evidence file.", "Synthetic headers without proof of work (repository's own difficulty switch off); small prune depths through the verif hooks that call the real clean/prune/load; reference model is independent code.", S),
}
NA = {}

def main():
    m = {
      "version": 1,
      "setup_cmd": "cd /verif/sim && GOFLAGS=-mod=mod GOPROXY=off GOSUMDB=off GOTOOLCHAIN=local CGO_ENABLED=0 go1.26.8 build -tags verif -o bin/simcheck ./cmd/simcheck",
      "hooks": {
        "guard": "verif (Go build tag)",
        "enable": "checks build the simulator with `go1.26.8 build -tags verif` against `replace github.com/tokenized/bitcoin_reader => /repo`; the hook files (/repo/verif_hooks.go, /repo/headers/verif_hooks.go) carry `//go:build verif`",
        "baseline_off_cmd": "cd /repo && go test -vet=off -count=1 -timeout 25m ./...",
        "source_commits": hook_commits,
        "add_only": True,
      },
      "engines": [
        {"name": "S", "path": "sim/worlds/headersworld, sim/worlds/peersworld", "serves_properties": [k for k,v in checks.items() if v[0]=="S"], "kind_free_text": "sequential discrete-event simulation, one goroutine, tape-chosen call order, simulated disk and header network"},
        {"name": "G", "path": "sim/worlds/nodeworld, sim/worlds/blockworld, sim/worlds/txworld, sim/worlds/syncworld", "serves_properties": [k for k,v in checks.items() if v[0]=="G"], "kind_free_text": "real goroutines inside a testing/synctest bubble (fake clock, quiescence detection), simulator-owned net.Conn and seams, seeded driver"},
      ],
      "checks": [],
      "notes": "All checks: ./run.sh <id> <tier> rebuilds sim/cmd/simcheck from /repo's working tree with -tags verif and runs a supervisor with up to 16 worker processes. Exit 0 held / 1 violation / 2 infrastructure trouble. VERIF_SEED selects the PRNG stream family; replay files under /verif/replays are op-level scripts (Engine S) or choice tapes (Engine G).",
      "not_applicable": [{"property_id": k, "reason": v} for k, v in sorted(NA.items())],
    }
    for pid in sorted(checks):
        eng, cat, text, note, tech = checks[pid]
        m["checks"].append({
          "property_id": pid,
          "quick_cmd": f"./run.sh {pid} quick",
          "thorough_cmd": f"./run.sh {pid} thorough",
          "evidence_file": f"/verif/evidence/{pid}.json",
          "replay_cmd_template": "./replay.sh {path}",
          "engine": eng,
          "level_claimed": {"category": cat, "text": text, "design_ref": f"DESIGN.md section 5, {pid}"},
          "level_note": note,
          "technique": tech,
        })
    json.dump(m, open(os.path.join(V, "MANIFEST.json"), "w"), indent=1)
    print("wrote MANIFEST.json with", len(m["checks"]), "checks,", len(m["not_applicable"]), "not applicable")

if __name__ == "__main__":
    main()
