#!/usr/bin/env python3
"""Writes /verif/MANIFEST.json from the table below (kept in one place so it stays valid)."""
import json, os, subprocess
V = os.path.dirname(os.path.dirname(os.path.abspath(__file__)))

hooks = subprocess.run(["git", "-C", "/repo", "log", "--format=%H %s"], capture_output=True, text=True).stdout.splitlines()
hook_commits = [l.split()[0] for l in hooks if " verif hook:" in " " + l]

S = "deterministic simulation with fault injection (Engine S: seeded sequential discrete-event simulation of the real repository over a simulated disk and header network; step-by-step refinement against an independent reference block tree; op-level minimised replay)"
G = "deterministic simulation with fault injection (Engine G: real goroutines in a testing/synctest bubble with a fake clock, simulator-owned connections, scripted peers and gated seams; seeded driver; invariants over recorded outputs)"

NOTE_S = "Synthetic headers without proof of work (repository's own difficulty switch off; work still derives from bits); small prune depths through the verif hooks that call the real clean/prune/load and are always larger than MaxBranchDepth; reference model is independent code; atomic key writes. Sampling, not proof: reach is measured by the probes and fault counters in the evidence file."
def s_text(what):
    return "Seeded search over tens of thousands of simulated histories per second (forks of forks, sibling/cousin overtakes by work, reorder/duplicate/drop from several peers, Clean/Save/restart with real and small prune depth). " + what + " Failures are minimised at operation level and replay exactly from the recorded script."

NOTE_G = "Goroutine order between two quiescent points is the Go runtime's (workers run with GOMAXPROCS=1); every oracle is a safety invariant over recorded calls/messages or a bounded-liveness check in simulated time, independent of that order. Peers are scripted state machines; the wall clock is synctest's fake clock."
checks = {
 # id: (engine, category, text, note, technique)
 "C01": ("S", "exploration", s_text("After every event the reported tip, work, height and the hash/header at every height are compared with an independent reference block tree; an error return is checked for having left a heavier accepted chain unreported."), NOTE_S, S),
 "C07": ("S", "exploration", s_text("0-3 subscribers drain the new-header stream after every submission; the delivered sequence must equal exactly the new best chain above the fork point, and applying it must reproduce the reported chain."), NOTE_S, S),
 "C08": ("S", "exploration", s_text("Adversarially chosen next headers (orphan, duplicate anywhere, fork exactly at / one beyond MaxBranchDepth 0..8 and 144, deep side-tip extension, fork of fork) get the reference verdict; after any non-accepting answer every observable and (sampled) the bytes of a following Save are identical."), NOTE_S, S),
 "C09": ("S", "exploration", s_text("After every event HashHeight/CheckHeader/GetHeader/PreviousHash of every header ever minted and tape-chosen GetHeaders ranges are compared with the reference tree, including after consolidation, pruning and reload."), NOTE_S, S),
 "C10": ("S", "exploration", s_text("Clean is inserted 1-3 times back to back at tape-chosen positions; a canonical rendering of all observables must be byte-identical before and after, and the run continues under the tip/ancestry oracle so side branches must still extend and overtake."), NOTE_S, S),
 "C11": ("S", "exploration", s_text("Save+Load generations at tape-chosen points: tip, chain by height and height/flag of every header within the retained depth must be equal; then the original and the loaded repository (twin run) get the same continuation and must agree on every verdict and observable."), NOTE_S, S),
 "C12": ("S", "fault_enumeration", s_text("For each sampled Clean and Save EVERY prefix of its Write/Remove calls becomes a crash image loaded by a fresh repository: no error, no panic, linked chain of accepted headers from genesis, work >= last completed Save, and the loaded repository accepts an extension. Exhaustive over crash points within each sampled history, sampled over histories."), NOTE_S, S + "; crash-point enumeration over the simulated disk's mutation log"),
 "C17": ("S", "exploration", s_text("Headers are marked invalid (best chain at any in-memory depth, side branch, first of branch, not yet seen, already marked, unknown hash, config supplied) and unmarked, with Save/restart between; the tip must be the heaviest chain not built on a marked header, flags and verdicts must follow."), NOTE_S + " Marking history that has left memory (deeper than the prune depth) is excluded from generation; see DESIGN.md findings.", S),
 "C18": ("S", "exploration", s_text("Headers carry real merkle roots over 1-9 generated txids; standard proofs (with header / block hash only) for blocks on the best chain, side branches and pruned history must verify with the reference height and flag at every point of the history, and each single-element corruption must fail."), NOTE_S + " Proof arithmetic itself is dependency code, cross-checked against an independent merkle implementation.", S),
 "C19": ("S", "exploration", s_text("GetLocatorHashes(max) is checked for membership, newest-first order from the tip's parent, no duplicates and the maximum; a simulated conformant peer on every root-to-leaf path of the reference tree answers the locator and its first header must connect."), NOTE_S, S),
 "C20": ("S", "fault_enumeration", "Seeded operation sequences over the real peer address book inside a synctest bubble (fake clock) are compared with an ordered-list reference after every call; for sampled states EVERY prefix of the saved file (every cut near every record boundary for files over 1500 bytes) and mutated files (negative/huge count and address length, random bytes, flipped bytes, version) are loaded into fresh repositories: no crash, and exactly the peers fully written before the cut are kept. Exhaustive over cut points within each sampled file, sampled over histories.", "One caller at a time (each method holds the lock from entry to exit; concurrent callers are an order of calls). Worker processes run under RLIMIT_AS 4 GiB so that a 16 GiB allocation sized from a corrupt count aborts deterministically. Record boundaries obtained black-box from saved file lengths.", S + "; file-prefix enumeration"),
 "C13": ("G", "exploration", "A real BitcoinNode (full / verify-only, with / without transaction manager) runs on its own goroutines inside a synctest bubble over a simulated connection; a scripted peer sends tape-chosen well-formed messages at every stage before verification (before version, between version and verack, verack first, no verack, after handshake) in tape-chosen fragments and delays, then one of 7 verification replies; recording wrappers around the real header repository, peer book and tx processor read Verified() at call time. 1 run in 5 puts 1-3 unverified nodes under a real NodeManager (verif hook) and requests headers, txs and a block. Tens of thousands of runs per second; sampling, not proof.", NOTE_G, G),
 "C14": ("G", "exploration", "A verified real node (tx manager present/absent, block requested/not) receives 1-12 tape-generated well-formed messages over the whole command set (handled/unhandled, classic/extended tx, block and unknown, empty and full lists, requested/unrequested blocks, payloads to 70 kB quick / 4 MB thorough) fragmented and delayed by the tape, then a ping with a fresh nonce: pong within 10 simulated minutes, or after a may-disconnect message pong or orderly close, never payload parsed as a header.", NOTE_G, G),
 "C15": ("G", "exploration", "A real node before handshake / during verification / ready receives 1-4 tape-generated hostile byte strings (noise, corrupt checksum/length/count/varint, truncation, extended lengths 2^48..2^64-1, every class of bits, hostile tx encodings, flipped bytes), then the peer closes. The run executes in a worker process whose death is attributed to the run it announced, re-run alone, minimised at message level and replayed from the recorded bytes. Run must return within 5 simulated minutes, the header repository must be intact and a second well-behaved connection must verify and answer a ping. Production repository configuration.", NOTE_G + " Declared lengths are either small or >= 2^48 so the outcome never depends on this machine's memory. Three allocation sites inside the dependency pkg/wire are known findings (KF19-KF21) and are excluded from generation; their witnesses run on every check.", G + "; process-level crash observation with per-run attribution"),
 "C04": ("G", "exploration", "A real BlockDownloader (Run and HandleBlock on their own goroutines in a synctest bubble) receives blocks of 1-125 (thorough: to 3200) transactions with a tape-chosen relevant subset and one corruption (dropped/added/duplicated-last/swapped/altered tx, announced count +-1, stream cut at k, different header or requested hash, processor/store error at call k) and optionally Cancel, Stop or interrupt at a tape-chosen step of the hand-over. Recorded calls are checked against a reference: confirmations only if header hash, count and an independently computed merkle root all match; coinbase first, exactly the relevant txids once each in block order, every proof verifies and equals the reference merkle path, block txids recorded last; Run nil iff all of it happened.", NOTE_G, G),
 "C16": ("G", "exploration", "A real BlockManager.Run with real BlockDownloaders serves 1-3 queued requests from simulated sources. At every quiescent point the tape picks one action at call granularity: a source starts its handler, hands over the next transaction, ends or cuts the stream, drops before/after start, serves a wrong block; the requester aborts (optionally in the same instant as shutdown); shutdown; or the clock advances through the start/download/cancel-poll/request-delay timers. Then a fault-free epilogue. Checked: exactly one terminal signal per request, complete only after a successful download of that hash, concurrent downloads bounded, registry empties, Run returns, and at the end of the bubble no goroutine of the system is left blocked.", NOTE_G + " A select with several ready cases is resolved by the Go runtime, not by the tape; failures are confirmed 3/3 in fresh processes before they are reported.", G + "; end-of-bubble blocked-goroutine detection"),
 "C05": ("G", "exploration", "The real block synchroniser of NodeManager (TriggerBlockSynchronize / synchronizeBlocks, started via the verif hook that marks the startup delay complete) runs over a real headers.Repository, a real BlockManager.Run and real BlockDownloaders in a synctest bubble; sources and the processor/block store are simulated. Tape-chosen start height, chain length, pre-processed prefix, concurrency and delay; at every quiescent point: a source serves (fully / wrong block / cut / drop), time advances, a new block arrives, a heavier fork reorganises 1-3 blocks (possibly the one being requested), or no node is available. Checked on the recorded requests and processing: never below the start height, never an already processed block, processing ascending and contiguous, each block once (concurrency 1); then a fault-free epilogue must process every best-chain block above the last processed one within 30 simulated minutes per block.", NOTE_G + " A BlockManager that gives up ends the run (the program exits there).", G),
 "C06": ("G", "exploration", "Two worlds in a synctest bubble. Manager world: real TxManager + Run consumer; 2-5 peers issue tape-chosen AddTxID/AddTx/GetTxRequests calls over 1-6 txids (bucket collisions forced) at held or advanced fake time (including timeout-1ns, timeout, timeout+1ms); every answer is compared with a sequential reference, grants are checked (<=1 per txid per timeout window, none after delivery) and processor/saver counts must be exactly one per delivered (relevant) txid after every step. End-to-end world: 2-4 verified real BitcoinNodes share the manager; scripted peers send inv (same tx from two peers in one instant), answer or ignore getdata (classic/extended tx), deliver unsolicited; the retry poll runs as time advances; getdata seen by peers are the grants.", NOTE_G + " Calls of different peers are issued one at a time by the driver (call-granularity interleavings, including several calls at one fake instant); interleavings inside one call are not controlled by this engine (see DESIGN.md section 8).", G + "; step-by-step refinement against a sequential reference"),
}
NA = {}
ALL = ["C%02d" % i for i in range(1, 21)]

def main():
    m = {
      "version": 1,
      "setup_cmd": "cd /verif/sim && GOFLAGS=-mod=mod GOPROXY=off GOSUMDB=off GOTOOLCHAIN=local CGO_ENABLED=0 go1.26.8 test -c -vet=off -tags verif -o bin/simcheck ./cmd/simcheck",
      "hooks": {
        "guard": "verif (Go build tag)",
        "enable": "checks build the simulator with `go1.26.8 build -tags verif` against `replace github.com/tokenized/bitcoin_reader => /repo`; the hook files (/repo/verif_hooks.go, /repo/headers/verif_hooks.go) carry `//go:build verif`",
        "baseline_off_cmd": "cd /repo && go test -vet=off -count=1 -timeout 25m ./...",
        "source_commits": hook_commits,
        "add_only": True,
      },
      "engines": [
        {"name": "S", "path": "sim/worlds/headersworld, sim/worlds/peersworld", "serves_properties": [k for k,v in checks.items() if v[0]=="S"], "kind_free_text": "sequential discrete-event simulation, one goroutine, tape-chosen call order, simulated disk and header network"},
        {"name": "G", "path": "sim/worlds/nodeworld, sim/worlds/blockworld, sim/worlds/txworld, sim/worlds/syncworld", "serves_properties": [k for k,v in checks.items() if v[0]=="G"], "kind_free_text": "real goroutines inside a testing/synctest bubble (fake clock, quiescence detection), simulator-owned net.Conn and seams, seeded driver"},
      ],
      "checks": [],
      "notes": "All checks: ./run.sh <id> <tier> rebuilds sim/cmd/simcheck from /repo's working tree with -tags verif and runs a supervisor with up to 16 worker processes. Exit 0 held / 1 violation / 2 infrastructure trouble. VERIF_SEED selects the PRNG stream family; replay files under /verif/replays are op-level scripts (Engine S) or choice tapes (Engine G).",
      "not_applicable": [{"property_id": k, "reason": v} for k, v in sorted(NA.items())] +
                        [{"property_id": k, "reason": "check under construction in this round (the technique applies; see DESIGN.md section 5)"} for k in ALL if k not in checks and k not in NA],
    }
    for pid in sorted(checks):
        eng, cat, text, note, tech = checks[pid]
        m["checks"].append({
          "property_id": pid,
          "quick_cmd": f"./run.sh {pid} quick",
          "thorough_cmd": f"./run.sh {pid} thorough",
          "evidence_file": f"/verif/evidence/{pid}.json",
          "replay_cmd_template": "./replay.sh {path}",
          "engine": eng,
          "level_claimed": {"category": cat, "text": text, "design_ref": f"DESIGN.md section 5, {pid}"},
          "level_note": note,
          "technique": tech,
        })
    json.dump(m, open(os.path.join(V, "MANIFEST.json"), "w"), indent=1)
    print("wrote MANIFEST.json with", len(m["checks"]), "checks,", len(m["not_applicable"]), "not applicable")

if __name__ == "__main__":
    main()
