#!/bin/bash
# usage: vet_mutant.sh <property id> <name>   (expects /tmp/wt-<id>/patch.diff, demo test, NOTES.md)
# 1. confirms in a fresh scratch worktree: demo passes without the patch, fails with it, existing suite passes with it
# 2. applies the patch to /repo, runs the property's quick check, undoes the patch
# 3. stores everything under /verif/seeded/<name>/
set -u
id=$1; name=$2; wt=/tmp/wt-${id}b; vf=/tmp/vf-$id
export GOFLAGS=-mod=mod GOPROXY=off GOSUMDB=off GOTOOLCHAIN=local
demo=$(cd $wt && git status --porcelain | grep '^??' | grep '_test.go' | awk '{print $2}' | head -1)
[ -z "$demo" ] && { echo "no demo test found"; exit 1; }
git -C /repo worktree remove --force $vf 2>/dev/null; git -C /repo worktree add -q $vf HEAD || exit 1
mkdir -p $(dirname $vf/$demo); cp $wt/$demo $vf/$demo
pkg=./$(dirname $demo)
( cd $vf && go test -vet=off -count=1 -run 'TestSeededDemo' $pkg > /tmp/vf-$id.without.log 2>&1 ); rc_without=$?
( cd $vf && git apply $wt/patch.diff ) || { echo "patch does not apply"; exit 1; }
( cd $vf && go build ./... ) || { echo "does not build"; exit 1; }
( cd $vf && go test -vet=off -count=1 -run 'TestSeededDemo' $pkg > /tmp/vf-$id.with.log 2>&1 ); rc_with=$?
( cd $vf && go test -vet=off -count=1 -skip 'TestSeededDemo|Test_Handshake' ./... > /tmp/vf-$id.suite.log 2>&1 ); rc_suite=$?
echo "demo without patch rc=$rc_without (want 0); with patch rc=$rc_with (want !=0); suite with patch rc=$rc_suite (want 0)"
git -C /repo worktree remove --force $vf
# run our check
cd /verif
git -C /repo apply $wt/patch.diff || { echo "patch does not apply to /repo"; exit 1; }
./run.sh $id quick > /tmp/vf-$id.check.log 2>&1; rc_check=$?
git -C /repo checkout HEAD -- .
echo "check $id quick rc=$rc_check"; grep "^violation\|^VIOLATION\|^OK\|trouble\|^unconfirmed" /tmp/vf-$id.check.log | cut -c1-260 | head -8
d=/verif/seeded/$name; mkdir -p $d
cp $wt/patch.diff $d/patch.diff; cp $wt/$demo $d/$(basename $demo); cp $wt/NOTES.md $d/NOTES.md 2>/dev/null
python3 - <<PY
import json
viol=[l.strip() for l in open('/tmp/vf-$id.check.log') if l.startswith('violation:')][:6]
json.dump({"property":"$id","name":"$name","demo_test":"$demo","demo_without_patch_exit":$rc_without,"demo_with_patch_exit":$rc_with,"existing_suite_with_patch_exit":$rc_suite,
 "check_cmd":"./run.sh $id quick","check_exit":$rc_check,"check_violations":viol,
 "needs":"see NOTES.md (written by the sub-agent that produced the change)",
 "ran":["fresh worktree of /repo HEAD: go test -run TestSeededDemo (without patch, with patch)","go test -skip 'TestSeededDemo|Test_Handshake' ./... with patch","git -C /repo apply patch.diff; ./run.sh $id quick; git -C /repo checkout HEAD -- ."]},
 open('$d/meta.json','w'),indent=1)
PY
