#!/bin/bash
# Engine F build: instruments a scratch copy of /repo's working tree and builds simcheck against it.
# usage: build_f.sh <output binary>     exit 0 ok, non-zero: the instrumented build is not available
set -u
out="$1"
export GOFLAGS=-mod=mod GOPROXY=off GOSUMDB=off GOTOOLCHAIN=local CGO_ENABLED=0
GO=go1.26.8
command -v $GO >/dev/null 2>&1 || GO=/opt/veriftools/go1.26.8/bin/go
sim="$(cd "$(dirname "$0")/../sim" && pwd)"
mkdir -p "$HOME/.cache"
scratch="$(mktemp -d "$HOME/.cache/verif-f.XXXXXX")" || exit 3
trap 'rm -rf "$scratch"' EXIT
mkdir -p "$scratch/repo/simrt"
repo="${VERIF_REPO:-/repo}"
cp "$repo"/*.go "$repo/go.mod" "$repo/go.sum" "$scratch/repo/" || exit 3
cp -r "$repo/headers" "$repo/internal" "$scratch/repo/" || exit 3
cp "$sim"/simrt_src/*.go "$sim"/simrt_src/*.s "$scratch/repo/simrt/" || exit 3
( cd "$sim" && $GO build -o "$scratch/simrewrite" ./cmd/simrewrite ) || exit 3
"$scratch/simrewrite" github.com/tokenized/bitcoin_reader/simrt \
  "$scratch/repo/block_downloader.go" "$scratch/repo/block_manager.go" "$scratch/repo/tx_manager.go" "$scratch/repo/peers.go" "$scratch/repo/node_manager.go" "$scratch/repo/bitcoin_node.go" "$scratch/repo/handlers.go" "$scratch/repo/messages.go" "$scratch/repo/verif_hooks.go" > "$scratch/rewrite.log" 2>&1 || { cat "$scratch/rewrite.log"; exit 4; }
sed "s#=> /repo#=> $scratch/repo#" "$sim/go.mod" > "$scratch/go.mod"
cp "$sim/go.sum" "$scratch/go.sum"
( cd "$sim" && $GO test -c -vet=off -modfile="$scratch/go.mod" -tags 'verif simf' -o "$out" ./cmd/simcheck ) > "$scratch/build.log" 2>&1 || { cat "$scratch/build.log"; exit 5; }
tail -4 "$scratch/rewrite.log" | sed 's/^/  /'
exit 0
