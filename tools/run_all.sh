#!/bin/bash
# usage: run_all.sh <quick|thorough> [ids...]   runs the checks one after another, prints one summary line each
tier=${1:-quick}; shift
ids="$@"; [ -z "$ids" ] && ids="C01 C02 C03 C04 C05 C06 C07 C08 C09 C10 C11 C12 C13 C14 C15 C16 C17 C18 C19 C20"
mkdir -p /root/scratch/runall
for id in $ids; do
  s=$(date +%s)
  "$(dirname "$0")/../run.sh" $id $tier > /root/scratch/runall/$id.$tier.log 2>&1; rc=$?
  e=$(( $(date +%s) - s ))
  echo "$id rc=$rc ${e}s $(grep -c '^VIOLATION' /root/scratch/runall/$id.$tier.log) violations; $(grep '^unconfirmed\|^infra\|engine F phase' /root/scratch/runall/$id.$tier.log | head -2 | tr '\n' ' ' | cut -c1-160)"
done
