#!/bin/bash
# usage: recheck_seeded.sh <name> [seconds]   re-runs the property's quick check with a stored seeded change applied to /repo
set -u
name=$1; secs=${2:-}
id=${name%%-*}
d=/verif/seeded/$name
[ -f $d/patch.diff ] || { echo "no $d/patch.diff"; exit 2; }
if ! git -C /repo apply $d/patch.diff 2>/dev/null; then
  git -C /repo apply --3way $d/patch.diff >/dev/null 2>&1 || { git -C /repo checkout HEAD -- .; echo "$name: patch does not apply to the current tree"; exit 3; }
  git -C /repo reset -q
fi
extra=""; [ -n "$secs" ] && extra="--seconds $secs"
/verif/run.sh $id quick $extra > /tmp/recheck-$name.log 2>&1; rc=$?
git -C /repo checkout HEAD -- .
echo "$name: check exit $rc"; grep "^violation\|^VIOLATION\|^OK\|trouble\|^unconfirmed\|regression" /tmp/recheck-$name.log | cut -c1-220 | head -6
rm -f /verif/replays/$id-*.json
