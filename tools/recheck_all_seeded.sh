#!/bin/bash
# usage: recheck_all_seeded.sh [names...]   re-runs the quick check of every stored seeded change against a scratch
# worktree of /repo HEAD with the patch applied (VERIF_REPO; /repo untouched) and prints one line each.
cd /verif/seeded || exit 2
names="$@"; [ -z "$names" ] && names=$(ls)
for name in $names; do
  id=${name%%-*}; vf=/tmp/rc-$name
  git -C /repo worktree remove --force $vf 2>/dev/null; git -C /repo worktree add -q --detach $vf HEAD || { echo "$name: worktree failed"; continue; }
  if ! ( cd $vf && git apply /verif/seeded/$name/patch.diff 2>/dev/null || git apply --3way /verif/seeded/$name/patch.diff >/dev/null 2>&1 ); then
    echo "$name: patch does not apply to the current tree"; git -C /repo worktree remove --force $vf; continue
  fi
  ( cd $vf && GOFLAGS=-mod=mod GOPROXY=off GOSUMDB=off go build ./... ) >/dev/null 2>&1 || { echo "$name: does not build on the current tree"; git -C /repo worktree remove --force $vf; continue; }
  VERIF_REPO=$vf /verif/run.sh $id quick > /tmp/rc-$name.log 2>&1; rc=$?
  git -C /repo worktree remove --force $vf
  echo "$name: exit $rc $(grep -c '^violation' /tmp/rc-$name.log) violation classes $(grep '^violation' /tmp/rc-$name.log | head -1 | cut -c1-120)"
  rm -f /verif/replays/$id-*.json /tmp/rc-$name.log
done
git -C /repo worktree prune
