#!/bin/bash
# usage: vet_mutant_wt.sh <property id> <suffix> [quick args]   (expects /tmp/wt-<id><suffix>/{patch.diff,NOTES.md,<demo>_test.go})
# Vets a seeded change WITHOUT touching /repo: a fresh scratch worktree of /repo HEAD gets the demo (must pass),
# then the patch (demo must fail, existing suite must pass), then the property's quick check runs against that
# worktree through VERIF_REPO. Everything is stored under /verif/seeded/<id>-<suffix>/ and the worktree removed.
set -u
id=$1; sfx=$2; shift; shift
wt=/tmp/wt-${id}${sfx}; vf=/tmp/vf-${id}${sfx}; name=${id}-${sfx}
export GOFLAGS=-mod=mod GOPROXY=off GOSUMDB=off GOTOOLCHAIN=local
demo=$(cd $wt && git status --porcelain | grep '^??' | grep '_test.go' | awk '{print $2}' | head -1)
[ -z "$demo" ] && { echo "no demo test found"; exit 1; }
git -C /repo worktree remove --force $vf 2>/dev/null; git -C /repo worktree add -q --detach $vf HEAD || exit 1
mkdir -p $(dirname $vf/$demo); cp $wt/$demo $vf/$demo
pkg=./$(dirname $demo)
( cd $vf && go test -vet=off -count=1 -run 'TestSeededDemo' $pkg > /tmp/vf-$name.without.log 2>&1 ); rc_without=$?
( cd $vf && git apply $wt/patch.diff ) || { echo "patch does not apply"; git -C /repo worktree remove --force $vf; exit 1; }
( cd $vf && go build ./... ) || { echo "does not build"; git -C /repo worktree remove --force $vf; exit 1; }
( cd $vf && go test -vet=off -count=1 -run 'TestSeededDemo' $pkg > /tmp/vf-$name.with.log 2>&1 ); rc_with=$?
( cd $vf && go test -vet=off -count=1 -skip 'TestSeededDemo|Test_Handshake' ./... > /tmp/vf-$name.suite.log 2>&1 ); rc_suite=$?
echo "demo without patch rc=$rc_without (want 0); with patch rc=$rc_with (want !=0); suite with patch rc=$rc_suite (want 0)"
rm -f $vf/$demo
VERIF_REPO=$vf /verif/run.sh $id quick "$@" > /tmp/vf-$name.check.log 2>&1; rc_check=$?
git -C /repo worktree remove --force $vf; git -C /repo worktree prune
echo "check $id quick rc=$rc_check"; grep "^violation\|^OK\|trouble\|^unconfirmed\|engine F phase" /tmp/vf-$name.check.log | cut -c1-260 | head -8
d=/verif/seeded/$name; mkdir -p $d
cp $wt/patch.diff $d/patch.diff; cp $wt/$demo $d/$(basename $demo); cp $wt/NOTES.md $d/NOTES.md 2>/dev/null
python3 - <<PY
import json
viol=[l.strip()[:200] for l in open('/tmp/vf-$name.check.log') if l.startswith('violation')][:6]
json.dump({"property":"$id","name":"$name","demo_test":"$demo","demo_without_patch_exit":$rc_without,"demo_with_patch_exit":$rc_with,"existing_suite_with_patch_exit":$rc_suite,
 "check_cmd":"VERIF_REPO=<scratch worktree with the patch> ./run.sh $id quick $*","check_exit":$rc_check,"check_violations":viol,
 "needs":"see NOTES.md (written by the sub-agent that produced the change)",
 "ran":["fresh worktree of /repo HEAD: go test -run TestSeededDemo (without patch, with patch)","go test -skip 'TestSeededDemo|Test_Handshake' ./... with patch","VERIF_REPO=<that worktree> ./run.sh $id quick (the check builds against the worktree; /repo untouched)"]},
 open('$d/meta.json','w'),indent=1)
PY
rm -f /verif/replays/$id-*.json /tmp/vf-$name.*.log
