package core

import (
	"encoding/json"
	"fmt"
	"os"
	"path/filepath"
	"runtime"
	"sort"
	"strconv"
	"strings"
	"time"
)

// KnownFinding is one entry of /verif/known_findings.json (committed; never written at run time).
type KnownFinding struct {
	ID          string `json:"id"`
	Property    string `json:"property"`
	Status      string `json:"status"` // "known" or "fixed"
	Commit      string `json:"commit,omitempty"`
	Invariant   string `json:"invariant"`
	Class       string `json:"class"`
	Description string `json:"description"`
	Witness     string `json:"witness,omitempty"` // replay file, relative to /verif
}

type knownFile struct {
	Findings []KnownFinding `json:"findings"`
	Lines    []string       `json:"lines,omitempty"`
}

func loadKnown(verifDir string) ([]KnownFinding, error) {
	b, err := os.ReadFile(filepath.Join(verifDir, "known_findings.json"))
	if err != nil {
		if os.IsNotExist(err) {
			return nil, nil
		}
		return nil, err
	}
	var kf knownFile
	if err := json.Unmarshal(b, &kf); err != nil {
		return nil, err
	}
	return kf.Findings, nil
}

func envSeed() uint64 {
	if v := os.Getenv("VERIF_SEED"); v != "" {
		if n, err := strconv.ParseInt(v, 10, 64); err == nil {
			return uint64(n)
		}
		if n, err := strconv.ParseUint(v, 10, 64); err == nil {
			return n
		}
	}
	return 1
}

// Main is the entry point of the simcheck binary.
func Main(verifDir string, args []string) int {
	if len(args) == 0 {
		fmt.Fprintln(os.Stderr, "usage: simcheck run <property> [--tier quick|thorough] [--seconds N] | replay <file> | worker ... | list")
		return 2
	}
	self, _ := os.Executable()
	switch args[0] {
	case "list":
		for _, id := range IDs() {
			fmt.Println(id, Lookup(id).Engine)
		}
		return 0
	case "worker":
		p := Lookup(args[1])
		if p == nil {
			fmt.Fprintln(os.Stderr, "unknown property", args[1])
			return 3
		}
		seed, _ := strconv.ParseUint(args[3], 10, 64)
		WorkerMain(p, args[2], seed)
		return 0
	case "run":
		if len(args) < 2 {
			return 2
		}
		p := Lookup(args[1])
		if p == nil {
			fmt.Fprintln(os.Stderr, "unknown property", args[1])
			return 2
		}
		tier := os.Getenv("VERIF_TIER")
		if tier == "" {
			tier = "quick"
		}
		seconds := 0
		for i := 2; i < len(args); i++ {
			switch args[i] {
			case "--tier":
				i++
				tier = args[i]
			case "--seconds":
				i++
				seconds, _ = strconv.Atoi(args[i])
			}
		}
		if tier != "quick" && tier != "thorough" {
			tier = "quick"
		}
		s := &Supervisor{Prop: p, Tier: tier, Seed: envSeed(), Self: self, VerifDir: verifDir,
			Workers: workerCount()}
		return s.RunCheck(seconds)
	case "one":
		// debugging aid: simcheck one <property> <run index> [tier]
		p := Lookup(args[1])
		idx, _ := strconv.ParseUint(args[2], 10, 64)
		tier := "quick"
		if len(args) > 3 {
			tier = args[3]
		}
		s := &Supervisor{Prop: p, Tier: tier, Seed: envSeed(), Self: self, VerifDir: verifDir, Workers: 1}
		ev := &evaluator{s: s}
		st := time.Now()
		res, err := ev.eval(&Command{Op: "one", Index: idx, Log: true})
		ev.close()
		if err != nil {
			fmt.Println("error:", err)
			return 2
		}
		for _, l := range res.Log {
			fmt.Println(l)
		}
		for _, f := range res.Failures {
			fmt.Printf("FAIL %s [%s] %s\n", f.Invariant, f.Class, f.Detail)
		}
		fmt.Printf("events=%d nontrivial=%v sim=%.1fs wall=%v faults=%v\n", res.Events, res.Nontrivial, float64(res.SimNanos)/1e9, time.Since(st), res.Faults)
		return 0
	case "replay":
		if len(args) < 2 {
			return 2
		}
		rf, err := LoadReplay(args[1])
		if err != nil {
			fmt.Fprintln(os.Stderr, "replay:", err)
			return 2
		}
		p := Lookup(rf.Property)
		if p == nil {
			fmt.Fprintln(os.Stderr, "unknown property", rf.Property)
			return 2
		}
		s := &Supervisor{Prop: p, Tier: rf.Tier, Seed: rf.Seed, Self: self, VerifDir: verifDir, Workers: 1}
		if rf.Engine == "F" {
			fbin := os.Getenv("VERIF_F_BIN")
			if fbin == "" {
				fmt.Fprintln(os.Stderr, "replay: this file was recorded by the Engine F phase; the instrumented build is not available")
				return 2
			}
			s.Self = fbin
			s.ExtraEnv = []string{"VERIF_ENGINE_F=1"}
		}
		ok, res, err := s.ReplayOne(rf)
		if err != nil {
			fmt.Fprintln(os.Stderr, "replay: infrastructure trouble:", err)
			return 2
		}
		for _, l := range res.Log {
			fmt.Println(l)
		}
		if ok {
			f := findFailure(res, rf.Violation.Key())
			fmt.Printf("reproduced: invariant=%s class=%q seq=%d (recorded seq=%d)\n%s\n", f.Invariant, f.Class, f.Seq, rf.Violation.Seq, f.Detail)
			fmt.Printf("VIOLATION property=%s replay=%s\n", rf.Property, args[1])
			return 1
		}
		fmt.Printf("not reproduced: %s did not fail on this tree (other failures: %d)\n", rf.Violation.Key(), len(res.Failures))
		for _, f := range res.Failures {
			fmt.Printf("  other: %s [%s] %s\n", f.Invariant, f.Class, f.Detail)
		}
		return 0
	}
	fmt.Fprintln(os.Stderr, "unknown command", args[0])
	return 2
}

func workerCount() int {
	if v := os.Getenv("VERIF_WORKERS"); v != "" {
		if n, err := strconv.Atoi(v); err == nil && n > 0 {
			return n
		}
	}
	n := runtime.NumCPU()
	if n > 16 {
		n = 16
	}
	if n < 1 {
		n = 1
	}
	return n
}

// RunCheck performs the whole check for one property and tier and returns the process exit code.
func (s *Supervisor) RunCheck(secondsOverride int) int {
	start := time.Now()
	p := s.Prop
	budget := time.Duration(p.QuickSeconds) * time.Second
	if s.Tier == "thorough" {
		budget = time.Duration(p.ThoroughSeconds) * time.Second
	}
	if secondsOverride > 0 {
		budget = time.Duration(secondsOverride) * time.Second
	}
	if budget == 0 {
		budget = 30 * time.Second
	}
	fmt.Printf("simcheck: property=%s engine=%s tier=%s VERIF_SEED=%d workers=%d budget=%v tree=%s\n",
		p.ID, p.Engine, s.Tier, s.Seed, s.Workers, budget, RepoTreeID())

	known, err := loadKnown(s.VerifDir)
	if err != nil {
		fmt.Println("infrastructure trouble: known_findings.json:", err)
		return 2
	}

	violations := 0
	var violationLines []string
	knownSeen := map[string]bool{}
	var knownLines []string

	// 1. witnesses of fixed and known findings
	for _, k := range known {
		if k.Property != p.ID || k.Witness == "" {
			continue
		}
		path := filepath.Join(s.VerifDir, k.Witness)
		rf, err := LoadReplay(path)
		if err != nil {
			fmt.Println("infrastructure trouble: witness", k.Witness, err)
			return 2
		}
		rs := s
		if rf.Engine == "F" {
			// recorded against the instrumented build: the tape only means something there
			fbin := os.Getenv("VERIF_F_BIN")
			if st, err := os.Stat(fbin); fbin == "" || err != nil || st.IsDir() {
				fmt.Printf("witness of finding %s needs the Engine F build, which is not available: skipped\n", k.ID)
				continue
			}
			cp := *s
			cp.Self = fbin
			cp.ExtraEnv = []string{"VERIF_ENGINE_F=1"}
			rs = &cp
		}
		ok, _, err := rs.ReplayOne(rf)
		if err != nil {
			fmt.Println("infrastructure trouble: witness", k.Witness, err)
			return 2
		}
		switch k.Status {
		case "fixed":
			if ok {
				violations++
				violationLines = append(violationLines, fmt.Sprintf("VIOLATION property=%s replay=%s", p.ID, path))
				fmt.Printf("regression: fixed finding %s (%s) fails again: %s\n", k.ID, k.Commit, rf.Violation.Key())
			} else {
				fmt.Printf("witness of fixed finding %s passes\n", k.ID)
			}
		case "known":
			if ok {
				knownSeen[k.Invariant+"|"+k.Class] = true
				knownLines = append(knownLines, fmt.Sprintf("KNOWN-FINDING: property=%s %s [%s] %s", p.ID, k.ID, k.Invariant+"|"+k.Class, k.Description))
			} else {
				fmt.Printf("note: witness of known finding %s no longer fails on this tree\n", k.ID)
			}
		}
	}

	// 2. seeded search
	o := s.Search(budget)
	if len(o.Infra) > 0 {
		fmt.Println("infrastructure trouble:")
		for _, l := range o.Infra {
			fmt.Println("  ", l)
		}
		if len(o.Failures) == 0 {
			return 2
		}
		// Failures found by other runs are still confirmed by replay and minimised below: a confirmed
		// failure is a violation whether or not another batch ran into the watchdog (a change that makes
		// one kind of run very slow must not hide what the other runs found).
		fmt.Printf("continuing with the %d failure classes the other runs found\n", len(o.Failures))
	}

	// 2b. Engine F phase: the same property against the instrumented build, if one was produced
	var sF *Supervisor
	var oF *Outcome
	fBudget := time.Duration(p.FQuickSeconds) * time.Second
	if s.Tier == "thorough" {
		fBudget = time.Duration(p.FThoroughSeconds) * time.Second
	}
	if secondsOverride > 0 && fBudget > 0 {
		fBudget = time.Duration(secondsOverride) * time.Second
	}
	fNote := ""
	if fBudget > 0 {
		fbin := os.Getenv("VERIF_F_BIN")
		if st, err := os.Stat(fbin); fbin == "" || err != nil || st.IsDir() {
			fNote = "Engine F phase skipped: the instrumented build was not produced (see the build output above)"
			fmt.Println(fNote)
		} else {
			cp := *s
			sF = &cp
			sF.Self = fbin
			sF.ExtraEnv = []string{"VERIF_ENGINE_F=1"}
			oF = sF.Search(fBudget)
			if len(oF.Infra) > 0 {
				fmt.Println("infrastructure trouble (Engine F phase):")
				for _, l := range oF.Infra {
					fmt.Println("  ", l)
				}
				return 2
			}
			fmt.Printf("engine F phase: runs=%d scheduling steps=%d distinct schedules=%d failures=%d\n", oF.Runs, oF.ILSteps, len(oF.ILSigs), len(oF.FailureKeys))
		}
	}

	// 3. minimise and classify each distinct failure
	isKnown := func(key string) *KnownFinding {
		for i := range known {
			k := &known[i]
			if k.Property == p.ID && k.Status == "known" && k.Invariant+"|"+k.Class == key {
				return k
			}
		}
		return nil
	}
	shrinkBudget := 25 * time.Second
	if s.Tier == "thorough" {
		shrinkBudget = 90 * time.Second
	}
	reported := 0
	for _, key := range o.FailureKeys {
		if k := isKnown(key); k != nil {
			if !knownSeen[key] {
				knownSeen[key] = true
				knownLines = append(knownLines, fmt.Sprintf("KNOWN-FINDING: property=%s %s [%s] %s", p.ID, k.ID, key, k.Description))
			}
			continue
		}
		if reported >= 6 {
			fmt.Printf("further failure class not minimised: %s\n", key)
			violations++
			continue
		}
		reported++
		path, res, err := s.Minimise(o, key, shrinkBudget)
		if uc, ok := err.(*errUnconfirmed); ok {
			o.Unconfirmed = append(o.Unconfirmed, uc.Error())
			fmt.Printf("unconfirmed observation (not an alarm): %s\n", uc.Error())
			continue
		}
		if err != nil {
			fmt.Printf("infrastructure trouble: failure %s of run %d could not be confirmed: %v\n", key, o.Failures[key].Index, err)
			return 2
		}
		// the minimised run may expose a class that is a known finding only under its minimised key
		violations++
		f := findFailure(res, key)
		fmt.Printf("violation: invariant=%s class=%q seq=%d tape_len=%d\n  %s\n", f.Invariant, f.Class, f.Seq, len(res.Tape), strings.ReplaceAll(f.Detail, "\n", "\n  "))
		violationLines = append(violationLines, fmt.Sprintf("VIOLATION property=%s replay=%s", p.ID, path))
	}

	if oF != nil {
		for _, key := range oF.FailureKeys {
			if k := isKnown(key); k != nil {
				if !knownSeen[key] {
					knownSeen[key] = true
					knownLines = append(knownLines, fmt.Sprintf("KNOWN-FINDING: property=%s %s [%s] %s", p.ID, k.ID, key, k.Description))
				}
				continue
			}
			if _, dup := o.Failures[key]; dup || reported >= 8 {
				continue
			}
			reported++
			path, res, err := sF.MinimiseF(oF, key, shrinkBudget)
			if uc, ok := err.(*errUnconfirmed); ok {
				o.Unconfirmed = append(o.Unconfirmed, "engine F: "+uc.Error())
				fmt.Printf("unconfirmed observation (not an alarm): engine F: %s\n", uc.Error())
				continue
			}
			if err != nil {
				fmt.Printf("infrastructure trouble: engine F failure %s of run %d could not be confirmed: %v\n", key, oF.Failures[key].Index, err)
				return 2
			}
			violations++
			f := findFailure(res, key)
			fmt.Printf("violation (engine F): invariant=%s class=%q seq=%d tape_len=%d\n  %s\n", f.Invariant, f.Class, f.Seq, len(res.Tape), strings.ReplaceAll(f.Detail, "\n", "\n  "))
			violationLines = append(violationLines, fmt.Sprintf("VIOLATION property=%s replay=%s", p.ID, path))
		}
		o.FRuns, o.FSteps, o.FSchedules, o.FWall = oF.Runs, oF.ILSteps, len(oF.ILSigs), oF.SearchWall
		o.Confirmations = append(o.Confirmations, oF.Confirmations...)
		for k, v := range oF.Faults {
			o.Faults[k] += v
		}
		for k, v := range oF.Probes {
			o.Probes[k] += v
		}
		o.Runs += oF.Runs
		o.Events += oF.Events
		o.SimNanos += oF.SimNanos
		o.SearchWall += oF.SearchWall
		for sg := range oF.Sigs {
			o.Sigs[sg] = struct{}{}
		}
	}
	o.FNote = fNote

	// 4. samples
	ev := &evaluator{s: s}
	for _, idx := range o.NontrivialI {
		if len(o.Samples) >= 3 {
			break
		}
		res, err := ev.eval(&Command{Op: "one", Index: idx, Log: true})
		if err == nil && res != nil {
			lg := res.Log
			if len(lg) > 60 {
				lg = append(append([]string{}, lg[:40]...), fmt.Sprintf("... (%d more lines)", len(res.Log)-40))
			}
			o.Samples = append(o.Samples, map[string]interface{}{"run_index": idx, "tape_len": len(res.Tape), "events": res.Events, "log": lg})
		}
	}
	if len(o.Samples) == 0 {
		res, err := ev.eval(&Command{Op: "one", Index: 0, Log: true})
		if err == nil && res != nil {
			lg := res.Log
			if len(lg) > 40 {
				lg = lg[:40]
			}
			o.Samples = append(o.Samples, map[string]interface{}{"run_index": 0, "events": res.Events, "log": lg})
		}
	}
	ev.close()
	o.Wall = time.Since(start)

	if err := s.writeEvidence(o, violations, knownLines); err != nil {
		fmt.Println("infrastructure trouble: evidence:", err)
		return 2
	}

	hours := o.SearchWall.Hours()
	fmt.Printf("runs=%d (%.0f runs/hour) distinct_nontrivial=%d events=%d sim_time=%.0fs worker_crashes=%d shrink_evals=%d wall=%.1fs\n",
		o.Runs, float64(o.Runs)/hours, len(o.Sigs), o.Events, float64(o.SimNanos)/1e9, o.WorkerCrash, o.ShrinkEvals, o.Wall.Seconds())
	fmt.Printf("faults fired: %s\n", fmtCounts(o.Faults, p.FaultKinds))
	fmt.Printf("probes hit:   %s\n", fmtCounts(o.Probes, p.ProbeNames))
	for _, l := range knownLines {
		fmt.Println(l)
	}
	for _, l := range violationLines {
		fmt.Println(l)
	}
	if violations > 0 {
		if len(violationLines) == 0 {
			fmt.Printf("VIOLATION property=%s replay=none\n", p.ID)
		}
		return 1
	}
	if len(o.Sigs) < 2 {
		fmt.Println("infrastructure trouble: fewer than 2 distinct non-trivial runs; the workload is not reaching the property")
		return 2
	}
	fmt.Printf("OK property=%s held on everything explored\n", p.ID)
	return 0
}

func fmtCounts(m map[string]int, names []string) string {
	all := map[string]int{}
	for _, n := range names {
		all[n] = 0
	}
	for k, v := range m {
		all[k] = v
	}
	var keys []string
	for k := range all {
		keys = append(keys, k)
	}
	sort.Strings(keys)
	var parts []string
	for _, k := range keys {
		parts = append(parts, fmt.Sprintf("%s=%d", k, all[k]))
	}
	return strings.Join(parts, " ")
}

func withZeros(m map[string]int, names []string) map[string]int {
	all := map[string]int{}
	for _, n := range names {
		all[n] = 0
	}
	for k, v := range m {
		all[k] = v
	}
	return all
}

func (s *Supervisor) writeEvidence(o *Outcome, violations int, knownLines []string) error {
	p := s.Prop
	hours := o.SearchWall.Hours()
	if hours <= 0 {
		hours = 1e-9
	}
	distinct := len(o.Sigs)
	rule := p.Rule
	if o.SigsCapped {
		rule += " (distinct count capped at 3,000,000 tracked signatures; true number is higher)"
	}
	cov := map[string]interface{}{
		"evaluations":         o.Runs,
		"distinct_nontrivial": distinct,
		"rule":                rule,
		"samples":             o.Samples,
		"runs_per_hour":       int64(float64(o.Runs) / hours),
		"seeds":               fmt.Sprintf("VERIF_SEED=%d, run indices 0..%d (one PRNG stream per index)", s.Seed, o.Runs),
		"events":              o.Events,
		"sim_time_total_s":    float64(o.SimNanos) / 1e9,
		"faults_fired":        withZeros(o.Faults, p.FaultKinds),
		"probes":              withZeros(o.Probes, p.ProbeNames),
		"distinct_measure":    "distinct 64-bit hashes of the canonical event log (operations, faults, verdicts, observed tips) of runs that are non-trivial by the rule",
		"components":          map[string]interface{}{"real": p.Real, "stub": p.Stub},
		"engine":              p.Engine,
		"worker_crashes":      o.WorkerCrash,
		"shrink_evaluations":  o.ShrinkEvals,
		"known_findings_seen": knownLines,
		"engine_f": map[string]interface{}{"runs": o.FRuns, "scheduling_steps": o.FSteps, "distinct_schedules": o.FSchedules, "wall_s": o.FWall.Seconds(), "note": o.FNote,
			"measure": "distinct 64-bit hashes of the sequence of resumed scheduling sites (file:line of the statement or lock about to execute) over the runs of the Engine F phase"},
		"confirmations":            o.Confirmations,
		"unconfirmed_observations": o.Unconfirmed,
		"repo_tree":                RepoTreeID(),
		"exhaustive":               false,
	}
	ev := map[string]interface{}{
		"property_id": p.ID,
		"tier":        s.Tier,
		"seed":        int64(s.Seed),
		"level":       p.Level,
		"coverage":    cov,
		"assumptions": p.Assumptions,
		"wall_s":      o.Wall.Seconds(),
		"violations":  violations,
	}
	dir := filepath.Join(s.VerifDir, "evidence")
	os.MkdirAll(dir, 0o755)
	b, err := json.MarshalIndent(ev, "", " ")
	if err != nil {
		return err
	}
	return os.WriteFile(filepath.Join(dir, p.ID+".json"), b, 0o644)
}
