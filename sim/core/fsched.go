package core

import (
	"os"
	"testing/synctest"

	"verif/sim/tape"
)

// FWaiter is a goroutine parked by the Engine F runtime.
type FWaiter struct {
	Site     string
	Lock     bool // parked because a TryLock failed
	Runnable bool
	Seq      uint64
	Ref      interface{}
}

// FScheduler is the Engine F runtime as seen by a world's driver. It only exists in the instrumented
// build (build tag simf, see props/f_sched.go); NewFScheduler is nil otherwise.
type FScheduler interface {
	Install()
	Uninstall()
	Waiters() []FWaiter
	Resume(w FWaiter)
	DriverCall(f func())
	Off()
	Steps() uint64
	Hash() uint64
}

var NewFScheduler func() FScheduler

// FAvailable: this binary was built against the instrumented scratch copy and the supervisor asked for
// the Engine F phase.
func FAvailable() bool { return NewFScheduler != nil && os.Getenv("VERIF_ENGINE_F") == "1" }

// FDriver is the tape driven scheduling policy shared by the worlds.
type FDriver struct {
	S FScheduler
	T *tape.Tape
	// Preempt: 1 in Preempt steps switches to a uniformly chosen runnable goroutine instead of
	// continuing with the most recently parked one (which approximates "keep running the same thread").
	Preempt int
}

// runnable returns the parked goroutines that can make progress.
func (d *FDriver) runnable() []FWaiter {
	var out []FWaiter
	for _, w := range d.S.Waiters() {
		if w.Runnable {
			out = append(out, w)
		}
	}
	return out
}

// Idle: every instrumented goroutine is blocked on a real channel, timer or lock held by a goroutine
// that is itself blocked — nothing can be resumed.
func (d *FDriver) Idle() bool {
	synctest.Wait()
	return len(d.runnable()) == 0
}

// Step resumes one goroutine chosen by the tape; false when idle.
func (d *FDriver) Step() bool {
	synctest.Wait()
	rs := d.runnable()
	if len(rs) == 0 {
		return false
	}
	i := 0
	if len(rs) > 1 {
		if d.Preempt > 0 && d.T.Draw(d.Preempt) == d.Preempt-1 {
			i = d.T.Draw(len(rs))
		} else {
			// most recently parked
			for k := range rs {
				if rs[k].Seq > rs[i].Seq {
					i = k
				}
			}
		}
	}
	d.S.Resume(rs[i])
	return true
}

// Settle runs instrumented goroutines until idle, or stops early (leaving goroutines in the middle of
// their calls) with probability earlyPermille/1000 per step. It returns true when idle.
func (d *FDriver) Settle(earlyPermille int, maxSteps int) bool {
	for n := 0; n < maxSteps; n++ {
		if earlyPermille > 0 && d.T.Draw(1000) < earlyPermille {
			synctest.Wait()
			return len(d.runnable()) == 0
		}
		if !d.Step() {
			return true
		}
	}
	return false
}
