package core

import (
	"os"
	"sort"
	"strings"
	"testing/synctest"
	"time"

	"verif/sim/tape"
)

// FWaiter is a goroutine parked by the Engine F runtime.
type FWaiter struct {
	Site     string
	Lock     bool // parked because a TryLock failed
	Sync     bool // parked in front of a synchronisation operation (lock, channel, select, go)
	Runnable bool
	Seq      uint64
	G        uint64 // goroutine identity (not an ordering)
	Ref      interface{}
}

// FScheduler is the Engine F runtime as seen by a world's driver. It only exists in the instrumented
// build (build tag simf, see props/f_sched.go); NewFScheduler is nil otherwise.
type FScheduler interface {
	Install()
	SetSelectSeed(seed uint64)
	SetDriverWait(w func() bool)
	SetNotify(n chan struct{})
	Uninstall()
	Waiters() []FWaiter
	Resume(w FWaiter)
	DriverCall(f func())
	Off()
	Steps() uint64
	Hash() uint64
}

var NewFScheduler func() FScheduler

// FAvailable: this binary was built against the instrumented scratch copy and the supervisor asked for
// the Engine F phase.
func FAvailable() bool { return NewFScheduler != nil && os.Getenv("VERIF_ENGINE_F") == "1" }

// FDriver is the tape driven scheduling policy shared by the worlds.
type FDriver struct {
	S FScheduler
	T *tape.Tape
	// Preempt: 1 in Preempt steps switches to a uniformly chosen runnable goroutine instead of
	// continuing with the goroutine resumed last ("keep running the same thread").
	Preempt int
	lastG   uint64

	// Stalled goroutine faults. A site is a stall site of this run when hash(HoldSeed, site) % HoldMod
	// == 0 (HoldMod 0: none); the n-th arrival at a stall site is held there with probability 1/(n+2)
	// (at most three per site and MaxHolds per run): the goroutine is not resumed until HoldFor of simulated time has passed, or,
	// with HoldFor 0, until nothing else can run. ReleaseAll ends all holds (fault free epilogue).
	HoldMod              int
	HoldSeed             uint64
	HoldFor              time.Duration
	MaxHolds             int
	Holds                int // how many goroutines were held (fault count)
	held                 map[interface{}]time.Time
	seen                 map[interface{}]bool
	arrivals             map[string]uint64
	siteHolds            map[string]int
	released             bool
	finished, deadlocked bool
	// Trace, if set, is told every resumed site (debugging aid, VERIF_FTRACE=1).
	Trace func(site string, runnable int)
}

// NewFDriver creates the scheduler of a run and draws its policy from the tape: preemption rate, the
// poll order seed of rewritten select statements, and the stall plan.
func NewFDriver(t *tape.Tape) *FDriver {
	sch := NewFScheduler()
	d := &FDriver{S: sch, T: t, Preempt: []int{4, 8, 20, 100, 1000}[t.Draw(5)], MaxHolds: 12}
	sch.SetSelectSeed(uint64(t.Draw(1 << 20)))
	d.HoldMod = []int{0, 30, 100, 300}[t.Draw(4)]
	d.HoldSeed = uint64(t.Draw(1 << 20))
	d.HoldFor = []time.Duration{0, 300 * time.Millisecond, 1500 * time.Millisecond, 6 * time.Second, 31 * time.Second}[t.Draw(5)]
	// a driver call that meets a lock held by a parked goroutine lets the others run, as a thread
	// waiting for the mutex would; stalled goroutines are released when nothing else can run
	sch.SetDriverWait(func() bool {
		if d.Step() {
			return true
		}
		if len(d.held) > 0 {
			d.held = map[interface{}]time.Time{}
			return d.Step()
		}
		return false
	})
	return d
}

// runnable returns the parked goroutines that can make progress.
func (d *FDriver) runnable() []FWaiter { return d.parked(true) }

// Parked returns all parked goroutines in canonical order.
func (d *FDriver) Parked() []FWaiter { return d.parked(false) }

// Finish ends scheduling at the end of a run: all stalls end, everything runs to rest, and if goroutines
// are then still waiting for locks that nobody will release (a lock order cycle, a lock leaked by a
// goroutine that exited) that is reported as a failure and they stay parked — the bubble then reports
// them as blocked for ever — instead of being set free to spin. Otherwise scheduling is switched off and
// everything runs freely from here on. It can be called more than once.
func (d *FDriver) Finish(c *Ctx) {
	if d.finished {
		return
	}
	d.ReleaseAll()
	d.Settle(0, 1<<30)
	synctest.Wait()
	var stuck []string
	for _, w := range d.S.Waiters() {
		if w.Lock && !w.Runnable {
			stuck = append(stuck, w.Site)
		}
	}
	d.finished = true
	if len(stuck) > 0 {
		sort.Strings(stuck)
		d.deadlocked = true
		c.Fail("no-lock-deadlock", "waiting-for-locks:"+strings.Join(stuck, ","), "at the end of the run %d goroutines wait for locks that no runnable goroutine holds (lock order cycle or leaked lock): %v", len(stuck), stuck)
		return
	}
	d.S.Off()
}

// Deadlocked: Finish found goroutines waiting for locks for ever.
func (d *FDriver) Deadlocked() bool { return d.deadlocked }

// ReleaseAll ends every hold and plans no more (the fault free epilogue).
func (d *FDriver) ReleaseAll() {
	d.released = true
	d.held = nil
}

// HeldCount is the number of goroutines currently held.
func (d *FDriver) HeldCount() int { return len(d.held) }

func (d *FDriver) parked(runnableOnly bool) []FWaiter {
	var out []FWaiter
	for _, w := range d.S.Waiters() {
		if w.Runnable || !runnableOnly {
			out = append(out, w)
		}
	}
	if runnableOnly && d.HoldMod > 0 && !d.released {
		out = d.applyHolds(out)
	}
	// canonical order: by site, not by the order in which goroutines woken in the same instant happened
	// to reach their yields (that order is the Go runtime's)
	sort.SliceStable(out, func(i, j int) bool {
		if out[i].Site != out[j].Site {
			return out[i].Site < out[j].Site
		}
		return out[i].Seq < out[j].Seq
	})
	return out
}

// applyHolds classifies newly parked goroutines (in canonical order) and removes the held ones.
func (d *FDriver) applyHolds(rs []FWaiter) []FWaiter {
	sort.SliceStable(rs, func(i, j int) bool {
		if rs[i].Site != rs[j].Site {
			return rs[i].Site < rs[j].Site
		}
		return rs[i].Seq < rs[j].Seq
	})
	if d.seen == nil {
		d.seen, d.held, d.arrivals = map[interface{}]bool{}, map[interface{}]time.Time{}, map[string]uint64{}
		d.siteHolds = map[string]int{}
	}
	now := time.Now() // the bubble's clock
	for _, w := range rs {
		if d.seen[w.Ref] || w.Lock {
			continue
		}
		d.seen[w.Ref] = true
		n := d.arrivals[w.Site]
		d.arrivals[w.Site] = n + 1
		h := d.HoldSeed ^ 0x51ed270b3a4c9d17
		for i := 0; i < len(w.Site); i++ {
			h = (h ^ uint64(w.Site[i])) * 1099511628211
		}
		h ^= h >> 29
		if force := os.Getenv("VERIF_FORCE_STALL_SITE"); force != "" && w.Site == force {
			// debugging aid: always stall here
			d.held[w.Ref] = now.Add(d.HoldFor)
			d.Holds++
			continue
		}
		mod := uint64(d.HoldMod)
		if w.Sync && mod > 8 {
			mod /= 4 // sites in front of a synchronisation operation are four times as likely to be stall sites
		}
		if h%mod != 0 || d.Holds >= d.MaxHolds || d.siteHolds[w.Site] >= 3 {
			continue // not a stall site of this run, or its share is used up (at most three holds per site)
		}
		h = (h ^ n ^ 0x2545f4914f6cdd1d) * 1099511628211
		h ^= h >> 31
		// the n-th arrival at a stall site is held with probability 1/(n+2): early arrivals most likely,
		// later iterations of a loop (bucket 100 of 256) still possible
		if h%(n+2) == 0 {
			d.held[w.Ref] = now.Add(d.HoldFor)
			d.Holds++
			d.siteHolds[w.Site]++
		}
	}
	var free, heldNow []FWaiter
	for _, w := range rs {
		until, isHeld := d.held[w.Ref]
		switch {
		case !isHeld:
			free = append(free, w)
		case d.HoldFor > 0 && !now.Before(until):
			delete(d.held, w.Ref)
			free = append(free, w)
		default:
			heldNow = append(heldNow, w)
		}
	}
	if len(free) == 0 && d.HoldFor == 0 && len(heldNow) > 0 {
		// nothing else can run: a hold without a duration ends here
		for _, w := range heldNow {
			delete(d.held, w.Ref)
		}
		return heldNow
	}
	return free
}

// Idle: every instrumented goroutine is blocked on a real channel, timer or lock held by a goroutine
// that is itself blocked, or is held by a stall fault — nothing can be resumed now.
func (d *FDriver) Idle() bool {
	synctest.Wait()
	return len(d.runnable()) == 0
}

// Step resumes one goroutine chosen by the tape; false when idle.
func (d *FDriver) Step() bool {
	synctest.Wait()
	rs := d.runnable()
	if len(rs) == 0 {
		return false
	}
	i := 0
	if len(rs) > 1 {
		// a switch away from the running goroutine: 1 in Preempt steps, three times as often when it
		// stands in front of a synchronisation operation
		p := d.Preempt
		for k := range rs {
			if rs[k].G == d.lastG && rs[k].Sync && p > 3 {
				p = (p + 2) / 3
			}
		}
		if p > 0 && d.T.Draw(p) == p-1 {
			i = d.T.Draw(len(rs))
		} else {
			// keep running the goroutine resumed last, if it can run; else the tape picks the next one
			i = -1
			for k := range rs {
				if rs[k].G == d.lastG {
					i = k
				}
			}
			if i < 0 {
				i = d.T.Draw(len(rs))
			}
		}
	}
	if d.Trace != nil {
		d.Trace(rs[i].Site, len(rs))
	}
	d.lastG = rs[i].G
	delete(d.seen, rs[i].Ref)
	d.S.Resume(rs[i])
	// the driver (and its tape) stands still while the resumed goroutine runs to its next yield
	synctest.Wait()
	return true
}

// Advance lets d of simulated time pass. Instrumented goroutines only run when they are resumed, so
// while the driver sleeps a pump goroutine resumes (tape-chosen order, until idle) whatever a timer
// woke; goroutines stalled by the fault plan stay held until their hold expires. The pump stops one
// nanosecond before the end: what the timers of the final instant wake up is left parked at its first
// yield, so that the driver's next action lands in the middle of the reaction to those timers.
func (d *FDriver) Advance(dur time.Duration) {
	if dur <= time.Nanosecond {
		time.Sleep(dur)
		return
	}
	notify := make(chan struct{}, 1)
	d.S.SetNotify(notify)
	done := make(chan struct{})
	fin := make(chan struct{})
	go func() {
		defer close(fin)
		for {
			d.Settle(0, 1<<30)
			select {
			case <-done:
				return
			default:
			}
			var expiry <-chan time.Time
			if d.HoldFor > 0 && len(d.held) > 0 {
				now := time.Now()
				first := time.Duration(-1)
				for _, until := range d.held {
					if w := until.Sub(now); first < 0 || w < first {
						first = w
					}
				}
				if first < time.Nanosecond {
					first = time.Nanosecond
				}
				expiry = time.After(first)
			}
			select {
			case <-done:
				return
			case <-notify:
			case <-expiry:
			}
		}
	}()
	time.Sleep(dur - time.Nanosecond)
	close(done)
	<-fin
	d.S.SetNotify(nil)
	time.Sleep(time.Nanosecond)
}

// Settle runs instrumented goroutines until idle, or stops early (leaving goroutines in the middle of
// their calls) with probability earlyPermille/1000 per step. It returns true when idle.
func (d *FDriver) Settle(earlyPermille int, maxSteps int) bool {
	for n := 0; n < maxSteps; n++ {
		if earlyPermille > 0 && d.T.Draw(1000) < earlyPermille {
			synctest.Wait()
			return len(d.runnable()) == 0
		}
		if !d.Step() {
			return true
		}
	}
	return false
}
