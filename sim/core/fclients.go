package core

import (
	"sync"
	"testing/synctest"
	"time"

	"github.com/anishathalye/porcupine"
)

// FCall is one call of a simulated client: In describes it for the reference model, Do performs it
// against the real (instrumented) code and returns what the model is to compare.
type FCall struct {
	In interface{}
	Do func() interface{}
}

// FClients runs concurrent clients under the Engine F scheduler and records the history of their calls
// stamped with a global event sequence number. Only one goroutine runs between two scheduling steps, so
// the stamps are a total order decided by the tape.
type FClients struct {
	D       *FDriver
	mu      sync.Mutex
	seq     int64
	History []porcupine.Operation
	// Stuck is set when a phase ended with clients that neither finished nor could be resumed.
	Stuck int
}

func (fc *FClients) stamp() int64 {
	fc.mu.Lock()
	fc.seq++
	s := fc.seq
	fc.mu.Unlock()
	return s
}

// Phase starts one goroutine per client, each performing its calls in order, and runs the scheduler
// until all of them have returned (stall faults without a duration end when nothing else can run; with
// a duration the clock advances until they expire). It returns false if some client never returned.
func (fc *FClients) Phase(calls [][]FCall) bool {
	var wg sync.WaitGroup
	done := make(chan struct{})
	for ci := range calls {
		if len(calls[ci]) == 0 {
			continue
		}
		wg.Add(1)
		ci := ci
		go func() {
			defer wg.Done()
			for _, call := range calls[ci] {
				inv := fc.stamp()
				out := call.Do()
				ret := fc.stamp()
				fc.mu.Lock()
				fc.History = append(fc.History, porcupine.Operation{ClientId: ci, Input: call.In, Call: inv, Output: out, Return: ret})
				fc.mu.Unlock()
			}
		}()
		// the client runs up to its first scheduling point before the next one starts: invocation
		// stamps do not depend on the runtime's choice among freshly started goroutines
		synctest.Wait()
	}
	go func() { wg.Wait(); close(done) }()
	for round := 0; round < 10000; round++ {
		fc.D.Settle(0, 1<<30)
		synctest.Wait()
		select {
		case <-done:
			return true
		default:
		}
		if fc.D.HeldCount() > 0 && fc.D.HoldFor > 0 {
			fc.D.Advance(fc.D.HoldFor) // stalled clients resume when their hold expires
			continue
		}
		break
	}
	select {
	case <-done:
		return true
	default:
	}
	fc.Stuck++
	return false
}

// Sequential performs one call on the driver goroutine itself between phases and records it.
func (fc *FClients) Sequential(client int, call FCall) interface{} {
	inv := fc.stamp()
	var out interface{}
	fc.D.S.DriverCall(func() { out = call.Do() })
	ret := fc.stamp()
	fc.History = append(fc.History, porcupine.Operation{ClientId: client, Input: call.In, Call: inv, Output: out, Return: ret})
	return out
}

// CheckLinearizable checks the recorded history against the sequential model.
func (fc *FClients) CheckLinearizable(model porcupine.Model, timeout time.Duration) porcupine.CheckResult {
	return porcupine.CheckOperationsTimeout(model, fc.History, timeout)
}
