package core

import (
	"bufio"
	"encoding/json"
	"fmt"
	"os"
	"runtime/pprof"
	"syscall"

	"verif/sim/tape"
)

// Command is sent by the supervisor to a worker process, one JSON object per line on stdin.
type Command struct {
	Op     string            `json:"op"` // "batch", "one", "quit"
	From   uint64            `json:"from,omitempty"`
	N      int               `json:"n,omitempty"`
	Stride uint64            `json:"stride,omitempty"`
	Index  uint64            `json:"index,omitempty"`
	Tape   []uint32          `json:"tape,omitempty"`
	UseTap bool              `json:"use_tape,omitempty"`
	Script []json.RawMessage `json:"script,omitempty"`
	Log    bool              `json:"log,omitempty"`
	Dry    bool              `json:"dry,omitempty"`
}

// Reply is sent by a worker, one JSON object per line on stdout.
type Reply struct {
	T string `json:"t"` // "start", "batch", "one"
	I uint64 `json:"i,omitempty"`

	Runs        int            `json:"runs,omitempty"`
	Events      int64          `json:"events,omitempty"`
	SimNanos    int64          `json:"sim_ns,omitempty"`
	Sigs        []uint64       `json:"sigs,omitempty"` // signatures of non-trivial runs
	NontrivialI []uint64       `json:"nontrivial_i,omitempty"`
	Faults      map[string]int `json:"faults,omitempty"`
	Probes      map[string]int `json:"probes,omitempty"`
	Failed      []*Result      `json:"failed,omitempty"`
	ILSigs      []uint64       `json:"il_sigs,omitempty"`
	ILSteps     uint64         `json:"il_steps,omitempty"`
	One         *Result        `json:"one,omitempty"`
}

// WorkerMain is the body of a worker process.
func WorkerMain(p *Property, tier string, seed uint64) {
	if p.MemLimitMB > 0 {
		lim := uint64(p.MemLimitMB) << 20
		_ = syscall.Setrlimit(syscall.RLIMIT_AS, &syscall.Rlimit{Cur: lim, Max: lim})
	}
	if pf := os.Getenv("VERIF_PROFILE"); pf != "" {
		f, err := os.Create(fmt.Sprintf("%s.%d", pf, os.Getpid()))
		if err == nil {
			pprof.StartCPUProfile(f)
			defer pprof.StopCPUProfile()
		}
	}
	in := bufio.NewReaderSize(os.Stdin, 1<<20)
	out := bufio.NewWriterSize(os.Stdout, 1<<16)
	enc := json.NewEncoder(out)
	send := func(r *Reply) {
		if err := enc.Encode(r); err != nil {
			fmt.Fprintln(os.Stderr, "worker: encode:", err)
			os.Exit(3)
		}
		out.Flush()
	}
	for {
		line, err := in.ReadBytes('\n')
		if len(line) == 0 && err != nil {
			return
		}
		var cmd Command
		if err := json.Unmarshal(line, &cmd); err != nil {
			fmt.Fprintln(os.Stderr, "worker: bad command:", err)
			os.Exit(3)
		}
		switch cmd.Op {
		case "quit":
			return
		case "one":
			var t *tape.Tape
			if cmd.UseTap {
				t = tape.NewReplay(cmd.Tape)
			} else {
				t = tape.NewSeeded(seed, cmd.Index)
			}
			fmt.Fprintf(out, "{\"t\":\"start\",\"i\":%d}\n", cmd.Index)
			out.Flush()
			res := RunFull(p, t, cmd.Script, tier, cmd.Log, cmd.Dry)
			res.Index = cmd.Index
			send(&Reply{T: "one", One: res})
		case "batch":
			rep := &Reply{T: "batch", Faults: map[string]int{}, Probes: map[string]int{}}
			seenKeys := map[string]bool{}
			for k := 0; k < cmd.N; k++ {
				idx := cmd.From + uint64(k)*cmd.Stride
				fmt.Fprintf(out, "{\"t\":\"start\",\"i\":%d}\n", idx)
				out.Flush()
				res := RunTape(p, tape.NewSeeded(seed, idx), tier, false)
				res.Index = idx
				rep.Runs++
				rep.Events += int64(res.Events)
				rep.SimNanos += res.SimNanos
				for k, v := range res.Faults {
					rep.Faults[k] += v
				}
				for k, v := range res.Probes {
					rep.Probes[k] += v
				}
				if res.ILSteps > 0 {
					rep.ILSigs = append(rep.ILSigs, res.ILHash)
					rep.ILSteps += res.ILSteps
				}
				if res.Nontrivial {
					rep.Sigs = append(rep.Sigs, res.Sig)
					if len(rep.NontrivialI) < 2 {
						rep.NontrivialI = append(rep.NontrivialI, idx)
					}
				}
				if len(res.Failures) > 0 {
					fresh := false
					for _, f := range res.Failures {
						if !seenKeys[f.Key()] {
							seenKeys[f.Key()] = true
							fresh = true
						}
					}
					if fresh && len(rep.Failed) < 8 {
						rep.Failed = append(rep.Failed, res)
					}
				}
			}
			send(rep)
		default:
			fmt.Fprintln(os.Stderr, "worker: unknown op", cmd.Op)
			os.Exit(3)
		}
	}
}
