// Package core is the engine independent part of the simulator: the run context handed to a
// property's world (tape, event log, invariant failures, fault and probe counters), the property
// registry, and the result type exchanged between worker processes and the supervisor.
package core

import (
	"encoding/json"
	"fmt"
	"hash/fnv"
	"runtime"
	"runtime/debug"
	"sort"
	"strings"
	"testing"
	"testing/synctest"

	"verif/sim/tape"
)

// Failure is one violated invariant observed during a run.
type Failure struct {
	Invariant string `json:"invariant"`
	// Class is the output of the invariant's classifier: a short stable description of the *shape*
	// of the failure. Known-finding entries match on (property, invariant, class).
	Class  string `json:"class"`
	Detail string `json:"detail"`
	Seq    int    `json:"seq"` // event sequence number at which it was observed
}

func (f Failure) Key() string { return f.Invariant + "|" + f.Class }

// Result is what one simulated run reports.
type Result struct {
	Index      uint64         `json:"index"`
	Failures   []Failure      `json:"failures,omitempty"`
	Sig        uint64         `json:"sig"`
	Nontrivial bool           `json:"nontrivial"`
	Events     int            `json:"events"`
	SimNanos   int64          `json:"sim_ns"`
	Faults     map[string]int `json:"faults,omitempty"`
	Probes     map[string]int `json:"probes,omitempty"`
	Log        []string       `json:"log,omitempty"`
	Tape       []uint32       `json:"tape,omitempty"`
	// Script is the op level form of the run (worlds that support it): element 0 is the run
	// configuration, the rest are the executed operations with explicit arguments. A script replays
	// without the tape and stays valid when the generator changes.
	Script []json.RawMessage `json:"script,omitempty"`
	Crash  string            `json:"crash,omitempty"` // set by the supervisor when the worker died
	// ILHash / ILSteps: Engine F only: hash of the sequence of (resumed goroutine's site) decisions
	// and their number.
	ILHash  uint64 `json:"il_hash,omitempty"`
	ILSteps uint64 `json:"il_steps,omitempty"`
}

// Ctx is handed to a property's Run function.
type Ctx struct {
	T       *tape.Tape
	Tier    string
	WantLog bool

	// Script, when non-nil, is executed instead of generating operations from the tape.
	Script []json.RawMessage
	// Dry asks the world to generate and record its script without running the system under test
	// (used to obtain the script of a run whose worker process died).
	Dry bool

	res     *Result
	h       uint64
	seen    map[string]bool
	stopped bool
}

func NewCtx(t *tape.Tape, tier string, wantLog bool) *Ctx {
	return &Ctx{
		T:       t,
		Tier:    tier,
		WantLog: wantLog,
		res:     &Result{Faults: map[string]int{}, Probes: map[string]int{}},
		h:       1469598103934665603,
		seen:    map[string]bool{},
	}
}

func (c *Ctx) Thorough() bool { return c.Tier == "thorough" }

// Event appends one canonical event to the run's log and signature. It never draws from the tape and
// never reads a clock.
func (c *Ctx) Event(format string, args ...interface{}) {
	s := fmt.Sprintf(format, args...)
	hh := fnv.New64a()
	hh.Write([]byte(s))
	c.h = (c.h ^ hh.Sum64()) * 1099511628211
	c.res.Events++
	if c.WantLog {
		if len(c.res.Log) < 4000 {
			c.res.Log = append(c.res.Log, fmt.Sprintf("%04d %s", c.res.Events, s))
		}
	}
}

// Note adds a line to the rendered log without affecting the signature or the event count.
func (c *Ctx) Note(format string, args ...interface{}) {
	if c.WantLog && len(c.res.Log) < 4000 {
		c.res.Log = append(c.res.Log, "     # "+fmt.Sprintf(format, args...))
	}
}

// Diag adds diagnostic lines to the rendered log even when the log is full (at most 200 lines more).
func (c *Ctx) Diag(format string, args ...interface{}) {
	if c.WantLog && len(c.res.Log) < 4200 {
		for _, l := range strings.Split(fmt.Sprintf(format, args...), "\n") {
			c.res.Log = append(c.res.Log, "     # "+l)
		}
	}
}

// Seq is the current event sequence number.
func (c *Ctx) Seq() int { return c.res.Events }

// Fail records a violated invariant. Only the first failure per (invariant, class) is kept.
func (c *Ctx) Fail(invariant, class, format string, args ...interface{}) {
	k := invariant + "|" + class
	if c.seen[k] {
		return
	}
	c.seen[k] = true
	detail := fmt.Sprintf(format, args...)
	if len(detail) > 1500 {
		detail = detail[:1500] + "..."
	}
	c.res.Failures = append(c.res.Failures, Failure{Invariant: invariant, Class: class,
		Detail: detail, Seq: c.res.Events})
	if c.WantLog {
		c.res.Log = append(c.res.Log, fmt.Sprintf("     ! FAIL %s [%s] %s", invariant, class, detail))
	}
}

func (c *Ctx) Failed() bool { return len(c.res.Failures) > 0 }

// Stop asks the world to end the run (model and implementation state have diverged).
func (c *Ctx) Stop()         { c.stopped = true }
func (c *Ctx) Stopped() bool { return c.stopped }

func (c *Ctx) Fault(kind string)         { c.res.Faults[kind]++ }
func (c *Ctx) FaultN(kind string, n int) { c.res.Faults[kind] += n }
func (c *Ctx) Probe(name string)         { c.res.Probes[name]++ }
func (c *Ctx) Nontrivial()               { c.res.Nontrivial = true }
func (c *Ctx) AddSimTime(ns int64)       { c.res.SimNanos += ns }

// Record appends one executed operation (or the configuration, first) to the run's script.
func (c *Ctx) Record(v interface{}) {
	b, err := json.Marshal(v)
	if err != nil {
		panic(err)
	}
	c.res.Script = append(c.res.Script, b)
}

// SetInterleaving records the Engine F schedule signature of the run.
func (c *Ctx) SetInterleaving(hash, steps uint64) { c.res.ILHash, c.res.ILSteps = hash, steps }

func (c *Ctx) Finish() *Result {
	c.res.Sig = c.h
	c.res.Tape = c.T.Recorded()
	return c.res
}

// Property describes one checked property.
type Property struct {
	ID     string
	Engine string // "S", "G", "F"
	Level  string // "exploration" or "fault_enumeration"
	// Rule states how cases are generated and what makes a run non-trivial / distinct.
	Rule        string
	Real        []string // components that ran real code
	Stub        []string // components that ran a stub
	Assumptions []string
	FaultKinds  []string // fault kinds this world can inject (reported with zero when never fired)
	ProbeNames  []string // reach probes (reported with zero when never hit)

	// Run executes one simulated run, drawing every decision from c.T.
	Run func(c *Ctx)

	// Budgets in seconds of search wall time (after build), and a minimum number of runs.
	QuickSeconds    int
	ThoroughSeconds int
	MinRuns         int

	// Bubble runs every run inside a testing/synctest bubble (fake clock, quiescence detection).
	Bubble bool
	// MemLimitMB, if non-zero, is applied to worker processes with RLIMIT_AS.
	MemLimitMB int
	// FQuickSeconds / FThoroughSeconds: budget of the additional Engine F phase (instrumented build);
	// zero means the property has no Engine F phase.
	FQuickSeconds, FThoroughSeconds int
	// DryScript: the world can generate its script without running the system (Ctx.Dry).
	DryScript bool
	// BatchSize is the number of runs per worker command (smaller for slow runs).
	BatchSize int
	// RunTimeoutSeconds is the wall clock watchdog per batch (infrastructure trouble, exit 2).
	RunTimeoutSeconds int
}

var registry = map[string]*Property{}

func Register(p *Property) {
	if _, dup := registry[p.ID]; dup {
		panic("duplicate property " + p.ID)
	}
	registry[p.ID] = p
}

func Lookup(id string) *Property { return registry[id] }

func IDs() []string {
	var ids []string
	for id := range registry {
		ids = append(ids, id)
	}
	sort.Strings(ids)
	return ids
}

// RunTape executes one run of the property on the given tape, converting a panic on the calling
// goroutine into a failure (a panic on another goroutine kills the process; the supervisor sees that).
func RunTape(p *Property, t *tape.Tape, tier string, wantLog bool) (res *Result) {
	return RunTapeOrScript(p, t, nil, tier, wantLog)
}

// WorkerT is the *testing.T of the worker process (set by TestWorker); bubbles need it.
var WorkerT *testing.T

// RunTapeOrScript executes a run from a script when one is given, else from the tape.
func RunTapeOrScript(p *Property, t *tape.Tape, script []json.RawMessage, tier string, wantLog bool) (res *Result) {
	return RunFull(p, t, script, tier, wantLog, false)
}

// RunFull is RunTapeOrScript with the dry flag.
func RunFull(p *Property, t *tape.Tape, script []json.RawMessage, tier string, wantLog, dry bool) (res *Result) {
	c := NewCtx(t, tier, wantLog)
	c.Script = script
	c.Dry = dry
	defer func() {
		if r := recover(); r != nil {
			msg := fmt.Sprint(r)
			if strings.Contains(msg, "deadlock: all goroutines in bubble are blocked") || strings.Contains(msg, "deadlock: main bubble goroutine has exited") {
				c.Fail("bubble-terminates", "goroutines-blocked-forever", "at the end of the run goroutines of the system under test are still blocked with no timer pending:\n%s", blockedGoroutines())
			} else if i := strings.Index(msg, "simrt: driver would block for ever on a lock at "); i >= 0 {
				// Engine F: a call of the driver into the system needs a lock whose holder can never run
				// again (lock order cycle among parked goroutines, leaked lock)
				c.Fail("no-lock-deadlock", "caller-blocked-at:"+strings.TrimSpace(msg[i+len("simrt: driver would block for ever on a lock at "):]), "a call into the system under test would wait for ever for a lock: no goroutine that could release it can run\n%s", blockedGoroutines())
			} else {
				c.Fail("no-panic", ClassifyPanic(msg), "panic on the simulation goroutine: %v\n%s", r, trimStack(debug.Stack()))
			}
			res = c.Finish()
		}
	}()
	if p.Bubble {
		if WorkerT == nil {
			panic("bubble property outside a worker process")
		}
		synctest.Test(WorkerT, func(*testing.T) { p.Run(c) })
	} else {
		p.Run(c)
	}
	return c.Finish()
}

// blockedGoroutines renders the goroutines of the code under test that are parked in a bubble.
// BlockedGoroutines describes the durably blocked goroutines of the system under test (diagnostics).
func BlockedGoroutines() string { return blockedGoroutines() }

func blockedGoroutines() string {
	buf := make([]byte, 1<<20)
	buf = buf[:runtime.Stack(buf, true)]
	var out []string
	for _, g := range strings.Split(string(buf), "\n\n") {
		if !strings.Contains(g, "synctest bubble") && !strings.Contains(g, "(durable)") {
			continue
		}
		if !strings.Contains(g, "tokenized/bitcoin_reader") && !strings.Contains(g, "tokenized/threads") {
			continue
		}
		lines := strings.Split(g, "\n")
		keep := []string{lines[0]}
		for i := 1; i+1 < len(lines); i += 2 {
			if strings.Contains(lines[i], "tokenized/") {
				fn := lines[i]
				if j := strings.Index(fn, "("); j > 0 {
					fn = fn[:j]
				}
				keep = append(keep, "  "+strings.TrimSpace(fn)+" "+strings.TrimSpace(lines[i+1]))
			}
			if len(keep) > 5 {
				break
			}
		}
		out = append(out, strings.Join(keep, "\n"))
		if len(out) >= 12 {
			break
		}
	}
	return strings.Join(out, "\n")
}

func ClassifyPanic(s string) string {
	// numbers vary from run to run (slice bounds, addresses); the shape does not
	out := make([]byte, 0, len(s))
	prevDigit := false
	for i := 0; i < len(s); i++ {
		ch := s[i]
		if ch >= '0' && ch <= '9' {
			if !prevDigit {
				out = append(out, 'N')
			}
			prevDigit = true
			continue
		}
		prevDigit = false
		out = append(out, ch)
	}
	s = string(out)
	if len(s) > 80 {
		s = s[:80]
	}
	return s
}

// trimStack keeps the frames of the code under test.
func trimStack(b []byte) string {
	var out []string
	lines := strings.Split(string(b), "\n")
	for i := 0; i+1 < len(lines); i++ {
		if strings.Contains(lines[i], "tokenized/bitcoin_reader") || strings.Contains(lines[i], "tokenized/pkg") {
			out = append(out, strings.TrimSpace(lines[i])+" "+strings.TrimSpace(lines[i+1]))
		}
		if len(out) >= 8 {
			break
		}
	}
	return strings.Join(out, "\n")
}
