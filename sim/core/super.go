package core

import (
	"bufio"
	"bytes"
	"crypto/sha256"
	"encoding/hex"
	"encoding/json"
	"fmt"
	"io"
	"os"
	"os/exec"
	"path/filepath"
	"regexp"
	"sort"
	"strconv"
	"strings"
	"sync"
	"time"

	"verif/sim/tape"
)

// proc is one worker process as seen by the supervisor.
type proc struct {
	cmd    *exec.Cmd
	stdin  io.WriteCloser
	out    *bufio.Reader
	stderr *tailBuffer
	lastI  uint64
	hasI   bool
}

// tailBuffer keeps the beginning (where a crash names its cause) and the end of a worker's stderr.
type tailBuffer struct {
	mu   sync.Mutex
	head []byte
	buf  []byte
}

func (t *tailBuffer) Write(p []byte) (int, error) {
	t.mu.Lock()
	defer t.mu.Unlock()
	if room := 1<<16 - len(t.head); room > 0 {
		n := len(p)
		if n > room {
			n = room
		}
		t.head = append(t.head, p[:n]...)
		p2 := p[n:]
		t.buf = append(t.buf, p2...)
	} else {
		t.buf = append(t.buf, p...)
	}
	if len(t.buf) > 1<<18 {
		t.buf = t.buf[len(t.buf)-(1<<17):]
	}
	return len(p), nil
}

func (t *tailBuffer) String() string {
	t.mu.Lock()
	defer t.mu.Unlock()
	return string(t.head) + string(t.buf)
}

type Supervisor struct {
	Prop     *Property
	Tier     string
	Seed     uint64
	Self     string // path of this executable
	VerifDir string
	Workers  int
	// ExtraEnv is added to the environment of worker processes (Engine F phase).
	ExtraEnv []string
	markF    bool
}

func (s *Supervisor) spawn() (*proc, error) {
	cmd := exec.Command(s.Self, "worker", s.Prop.ID, s.Tier, fmt.Sprint(s.Seed))
	procs := "GOMAXPROCS=2"
	if s.Prop.Bubble {
		procs = "GOMAXPROCS=1" // fewer schedules between quiescent points; workers are processes anyway
	}
	cmd.Env = append(append(os.Environ(), procs, "GOTRACEBACK=all"), s.ExtraEnv...)
	stdin, err := cmd.StdinPipe()
	if err != nil {
		return nil, err
	}
	stdout, err := cmd.StdoutPipe()
	if err != nil {
		return nil, err
	}
	tb := &tailBuffer{}
	cmd.Stderr = tb
	if err := cmd.Start(); err != nil {
		return nil, err
	}
	return &proc{cmd: cmd, stdin: stdin, out: bufio.NewReaderSize(stdout, 1<<20), stderr: tb}, nil
}

func (p *proc) kill() {
	if p == nil || p.cmd == nil || p.cmd.Process == nil {
		return
	}
	p.stdin.Close()
	p.cmd.Process.Kill()
	p.cmd.Wait()
}

// errWorkerDied is returned by roundTrip when the worker exits before replying.
type errWorkerDied struct {
	lastI  uint64
	hasI   bool
	stderr string
	timed  bool
}

func (e *errWorkerDied) Error() string { return "worker died" }

// roundTrip sends one command and reads replies until the terminal one.
func (p *proc) roundTrip(c *Command, timeout time.Duration) (*Reply, error) {
	b, _ := json.Marshal(c)
	b = append(b, '\n')
	p.hasI = false
	if _, err := p.stdin.Write(b); err != nil {
		p.cmd.Wait()
		return nil, &errWorkerDied{stderr: p.stderr.String()}
	}
	type rr struct {
		r   *Reply
		err error
	}
	ch := make(chan rr, 1)
	go func() {
		for {
			line, err := p.out.ReadBytes('\n')
			if err != nil {
				ch <- rr{nil, err}
				return
			}
			var r Reply
			if err := json.Unmarshal(line, &r); err != nil {
				// Not protocol output (something printed to stdout); ignore the line.
				continue
			}
			if r.T == "start" {
				p.lastI = r.I
				p.hasI = true
				continue
			}
			ch <- rr{&r, nil}
			return
		}
	}()
	select {
	case x := <-ch:
		if x.err != nil {
			p.cmd.Wait()
			return nil, &errWorkerDied{lastI: p.lastI, hasI: p.hasI, stderr: p.stderr.String()}
		}
		return x.r, nil
	case <-time.After(timeout):
		p.cmd.Process.Kill()
		<-ch
		p.cmd.Wait()
		return nil, &errWorkerDied{lastI: p.lastI, hasI: p.hasI, stderr: p.stderr.String(), timed: true}
	}
}

var (
	reAddr = regexp.MustCompile(`0x[0-9a-f]+`)
	reGo   = regexp.MustCompile(`goroutine \d+`)
)

// crashClass extracts a stable description of a worker crash from its stderr.
func crashClass(stderr string) (cls string, det string) {
	if dir := os.Getenv("VERIF_DEBUG_CRASH"); dir != "" {
		defer func() {
			os.WriteFile(filepath.Join(dir, fmt.Sprintf("crash-%d-%d.txt", os.Getpid(), time.Now().UnixNano())), []byte(cls+"\n"+stderr), 0o644)
		}()
	}
	lines := strings.Split(stderr, "\n")
	first := ""
	idx := -1
	for i, l := range lines {
		if strings.HasPrefix(l, "panic: ") || strings.HasPrefix(l, "fatal error: ") {
			first = l
			idx = i
			break
		}
	}
	if first == "" {
		return "exit-without-panic", tail(stderr, 600)
	}
	first = strings.Replace(first, "fatal error: runtime: out of memory", "fatal error: out of memory", 1)
	if strings.HasPrefix(first, "fatal error: ") && strings.Contains(first, "out of memory") {
		// "out of memory allocating heap arena metadata", "cannot allocate memory" variants under an
		// address space limit: one class, named after the allocating frame
		first = "fatal error: out of memory"
	}
	first = reAddr.ReplaceAllString(first, "0x?")
	first = reGo.ReplaceAllString(first, "goroutine N")
	if len(first) > 120 {
		first = first[:120]
	}
	// first frame of the code under test or its own dependencies in the crashing goroutine. For the
	// runtime's "all goroutines are asleep" the cause is the goroutine waiting on a real mutex or
	// semaphore (everything else is parked by the bubble): start at that goroutine.
	frame := ""
	start := idx
	if strings.Contains(first, "all goroutines are asleep") {
		for i := idx; i < len(lines); i++ {
			if strings.HasPrefix(lines[i], "goroutine ") && (strings.Contains(lines[i], "[sync.Mutex.Lock") || strings.Contains(lines[i], "[sync.RWMutex") || strings.Contains(lines[i], "[semacquire")) {
				start = i
				break
			}
		}
	}
	for _, l := range lines[start:] {
		t := strings.TrimSpace(l)
		if t == "" && frame == "" && l != lines[idx] {
			// end of the first goroutine block
		}
		if strings.HasPrefix(t, "github.com/tokenized/") {
			// cut the argument list: the last "(" that is not part of a "(*T)" receiver
			for j := len(t) - 1; j > 0; j-- {
				if t[j] == '(' && t[j-1] != '.' {
					t = t[:j]
					break
				}
			}
			if k := strings.Index(t, "({"); k > 0 {
				t = t[:k]
			}
			frame = strings.TrimPrefix(t, "github.com/tokenized/")
			break
		}
	}
	end := idx + 30
	if end > len(lines) {
		end = len(lines)
	}
	det = strings.Join(lines[idx:end], "\n")
	if start != idx {
		e2 := start + 24
		if e2 > len(lines) {
			e2 = len(lines)
		}
		det = first + "\n" + strings.Join(lines[start:e2], "\n")
	}
	return first + " @ " + frame, det
}

func tail(s string, n int) string {
	if len(s) > n {
		return s[len(s)-n:]
	}
	return s
}

// Outcome is the aggregated result of a supervised search.
type Outcome struct {
	Runs          int64
	Events        int64
	SimNanos      int64
	Faults        map[string]int
	Probes        map[string]int
	Sigs          map[uint64]struct{}
	SigsCapped    bool
	NontrivialI   []uint64
	Failures      map[string]*Result // first failing run per failure key
	FailureKeys   []string
	WorkerCrash   int
	Infra         []string
	Wall          time.Duration
	SearchWall    time.Duration
	Samples       []interface{}
	ShrinkEvals   int
	Confirmations []string
	Unconfirmed   []string
	ILSigs        map[uint64]struct{}
	ILSteps       uint64
	FRuns         int64
	FSteps        uint64
	FSchedules    int
	FWall         time.Duration
	FNote         string
}

// oneEval runs a single tape (or seeded index) in a fresh-or-reused dedicated worker and converts a
// worker death into a process-crash failure.
type evaluator struct {
	s *Supervisor
	p *proc
}

func (e *evaluator) close() {
	if e.p != nil {
		e.p.kill()
		e.p = nil
	}
}

func (e *evaluator) eval(c *Command) (*Result, error) {
	if e.p == nil {
		p, err := e.s.spawn()
		if err != nil {
			return nil, err
		}
		e.p = p
	}
	to := time.Duration(e.s.Prop.RunTimeoutSeconds) * time.Second
	if to == 0 {
		to = 120 * time.Second
	}
	rep, err := e.p.roundTrip(c, to)
	if err != nil {
		d, ok := err.(*errWorkerDied)
		e.p = nil
		if !ok {
			return nil, err
		}
		if d.timed {
			return nil, fmt.Errorf("watchdog: run did not finish within %v", to)
		}
		class, detail := crashClass(d.stderr)
		res := &Result{Index: c.Index, Crash: class}
		res.Failures = []Failure{{Invariant: "process-survives", Class: class, Detail: detail}}
		if c.UseTap {
			res.Tape = c.Tape
		}
		return res, nil
	}
	return rep.One, nil
}

// Search runs the seeded search over many simulated runs on all workers.
func (s *Supervisor) Search(budget time.Duration) *Outcome {
	start := time.Now()
	o := &Outcome{Faults: map[string]int{}, Probes: map[string]int{}, Sigs: map[uint64]struct{}{},
		Failures: map[string]*Result{}}
	var mu sync.Mutex
	var next uint64
	batch := s.Prop.BatchSize
	if batch == 0 {
		batch = 200
	}
	minRuns := int64(s.Prop.MinRuns)
	deadline := start.Add(budget)
	hardDeadline := start.Add(budget*3 + 60*time.Second)
	to := time.Duration(s.Prop.RunTimeoutSeconds) * time.Second
	if v, err := strconv.Atoi(os.Getenv("VERIF_WATCHDOG_SECONDS")); err == nil && v > 0 {
		to = time.Duration(v) * time.Second // debugging aid, never set by a registered command
	}
	if to == 0 {
		to = 120 * time.Second
	}
	var wg sync.WaitGroup
	for w := 0; w < s.Workers; w++ {
		wg.Add(1)
		go func(w int) {
			defer wg.Done()
			var p *proc
			defer func() { p.kill() }()
			for {
				mu.Lock()
				done := (time.Now().After(deadline) && o.Runs >= minRuns) || time.Now().After(hardDeadline) ||
					len(o.Failures) >= 12 || len(o.Infra) > 0
				from := next
				if !done {
					next += uint64(batch)
				}
				mu.Unlock()
				if done {
					return
				}
				if p == nil {
					var err error
					p, err = s.spawn()
					if err != nil {
						mu.Lock()
						o.Infra = append(o.Infra, "spawn: "+err.Error())
						mu.Unlock()
						return
					}
				}
				rep, err := p.roundTrip(&Command{Op: "batch", From: from, N: batch, Stride: 1}, to)
				if err != nil {
					d, _ := err.(*errWorkerDied)
					p = nil
					mu.Lock()
					if d == nil {
						o.Infra = append(o.Infra, err.Error())
					} else if d.timed {
						o.Infra = append(o.Infra, fmt.Sprintf("watchdog: batch from %d did not finish within %v (last started run %d)\n%s",
							from, to, d.lastI, tail(d.stderr, 3000)))
					} else if !d.hasI {
						o.Infra = append(o.Infra, "worker exited before starting a run: "+tail(d.stderr, 800))
					} else {
						o.WorkerCrash++
						class, detail := crashClass(d.stderr)
						f := Failure{Invariant: "process-survives", Class: class, Detail: detail}
						if _, ok := o.Failures[f.Key()]; !ok {
							o.Failures[f.Key()] = &Result{Index: d.lastI, Crash: class, Failures: []Failure{f}}
						}
						// runs before the crashing one were executed; account for them roughly
						o.Runs += int64(d.lastI-from) + 1
					}
					mu.Unlock()
					continue
				}
				mu.Lock()
				o.Runs += int64(rep.Runs)
				o.Events += rep.Events
				o.SimNanos += rep.SimNanos
				for k, v := range rep.Faults {
					o.Faults[k] += v
				}
				for k, v := range rep.Probes {
					o.Probes[k] += v
				}
				for _, sg := range rep.Sigs {
					if len(o.Sigs) < 3_000_000 {
						o.Sigs[sg] = struct{}{}
					} else {
						o.SigsCapped = true
					}
				}
				for _, sg := range rep.ILSigs {
					if o.ILSigs == nil {
						o.ILSigs = map[uint64]struct{}{}
					}
					if len(o.ILSigs) < 3_000_000 {
						o.ILSigs[sg] = struct{}{}
					}
				}
				o.ILSteps += rep.ILSteps
				if len(o.NontrivialI) < 3 {
					o.NontrivialI = append(o.NontrivialI, rep.NontrivialI...)
				}
				for _, r := range rep.Failed {
					for _, f := range r.Failures {
						if _, ok := o.Failures[f.Key()]; !ok {
							o.Failures[f.Key()] = r
						}
					}
				}
				mu.Unlock()
			}
		}(w)
	}
	wg.Wait()
	for k := range o.Failures {
		o.FailureKeys = append(o.FailureKeys, k)
	}
	sort.Strings(o.FailureKeys)
	o.SearchWall = time.Since(start)
	return o
}

// ReplayFile is the on-disk form of a failing run.
type ReplayFile struct {
	Property  string            `json:"property"`
	Engine    string            `json:"engine"`
	Tier      string            `json:"tier"`
	Seed      uint64            `json:"seed"`
	RunIndex  uint64            `json:"run_index"`
	Minimised bool              `json:"minimised"`
	Tape      []uint32          `json:"tape"`
	Script    []json.RawMessage `json:"script,omitempty"`
	Violation Failure           `json:"violation"`
	Log       []string          `json:"event_log,omitempty"`
	RepoTree  string            `json:"repo_tree,omitempty"`
	Note      string            `json:"note,omitempty"`
}

func hasKey(r *Result, key string) bool {
	if r == nil {
		return false
	}
	for _, f := range r.Failures {
		if f.Key() == key {
			return true
		}
	}
	return false
}

func findFailure(r *Result, key string) Failure {
	for _, f := range r.Failures {
		if f.Key() == key {
			return f
		}
	}
	return Failure{}
}

// MinimiseF is Minimise for the Engine F phase (the supervisor copy points at the instrumented binary);
// the replay file is marked so that replay.sh builds the instrumented binary again.
func (s *Supervisor) MinimiseF(o *Outcome, key string, budget time.Duration) (string, *Result, error) {
	s.markF = true
	return s.Minimise(o, key, budget)
}

// Minimise reproduces the failure with the given key from its tape, shrinks the tape, confirms the
// result three times in fresh processes and writes the replay file. It returns the path, or an
// error describing a divergence (a simulator bug, reported as infrastructure trouble).
func (s *Supervisor) Minimise(o *Outcome, key string, budget time.Duration) (string, *Result, error) {
	first := o.Failures[key]
	ev := &evaluator{s: s}
	defer ev.close()

	var tp []uint32
	if first.Tape != nil {
		tp = first.Tape
	} else {
		// The worker died before returning its tape: regenerate the raw PRNG stream of that run.
		tp = tape.RawStream(s.Seed, first.Index, 1<<17)
	}

	test := func(cand []uint32) bool {
		o.ShrinkEvals++
		res, err := ev.eval(&Command{Op: "one", UseTap: true, Tape: cand})
		if err != nil {
			return false
		}
		return hasKey(res, key)
	}
	testScript := func(cand []json.RawMessage) bool {
		o.ShrinkEvals++
		res, err := ev.eval(&Command{Op: "one", UseTap: true, Script: cand})
		if err != nil {
			return false
		}
		return hasKey(res, key)
	}

	minimised := false
	var script []json.RawMessage
	if first.Script == nil && first.Tape == nil && s.Prop.DryScript {
		// the worker died: obtain the script of that run without running the system under test
		if res, err := ev.eval(&Command{Op: "one", Index: first.Index, Dry: true}); err == nil && res != nil && len(res.Script) > 0 {
			first.Script = res.Script
		}
	}
	if first.Script != nil && testScript(first.Script) {
		// op level minimisation: delete operations (element 0 is the configuration and stays)
		script = ShrinkScript(first.Script, testScript, budget)
		tp = nil
		minimised = true
	} else if tp != nil {
		ok := test(tp)
		for k := 0; !ok && k < 4 && s.Prop.Engine == "G"; k++ {
			ok = test(tp)
		}
		if !ok {
			if s.Prop.Engine == "G" {
				return "", nil, &errUnconfirmed{key: key, attempts: 5}
			}
			return "", nil, fmt.Errorf("divergence: tape of run %d does not reproduce %s when replayed", first.Index, key)
		}
		tp = Shrink(tp, test, budget)
		minimised = true
	}

	// Confirm in fresh processes. Engines S and F own every choice, so a run must reproduce 3/3;
	// anything else is a simulator bug (infrastructure trouble). In Engine G goroutine order between
	// quiescent points and select among ready cases belong to the Go runtime: a failure that
	// reproduces at least once in 5 fresh attempts is reported (its oracle is schedule independent);
	// one that never reproduces is recorded as an unconfirmed observation and is not an alarm.
	var last *Result
	attempts, need := 3, 3
	if s.Prop.Engine == "G" {
		attempts, need = 5, 1
	}
	got := 0
	for i := 0; i < attempts; i++ {
		ev.close()
		var res *Result
		var err error
		if script != nil {
			res, err = ev.eval(&Command{Op: "one", UseTap: true, Script: script, Log: true})
		} else if tp != nil {
			res, err = ev.eval(&Command{Op: "one", UseTap: true, Tape: tp, Log: true})
		} else {
			res, err = ev.eval(&Command{Op: "one", Index: first.Index, Log: true})
		}
		if err != nil {
			return "", nil, err
		}
		if hasKey(res, key) {
			got++
			last = res
			if s.Prop.Engine != "G" || got >= 2 {
				if got >= need && s.Prop.Engine == "G" {
					break
				}
			}
		} else if s.Prop.Engine != "G" {
			return "", nil, fmt.Errorf("divergence: minimised run for %s reproduced %d/%d times only", key, got, i+1)
		}
	}
	if got < need {
		return "", nil, &errUnconfirmed{key: key, attempts: attempts}
	}
	o.Confirmations = append(o.Confirmations, fmt.Sprintf("%s reproduced %d/%d", key, got, attempts))
	f := findFailure(last, key)
	engine := s.Prop.Engine
	if s.markF {
		engine = "F"
	}
	rf := &ReplayFile{Property: s.Prop.ID, Engine: engine, Tier: s.Tier, Seed: s.Seed,
		RunIndex: first.Index, Minimised: minimised, Tape: tp, Script: script, Violation: f, Log: last.Log,
		RepoTree: RepoTreeID()}
	path, err := s.WriteReplay(rf)
	return path, last, err
}

func (s *Supervisor) WriteReplay(rf *ReplayFile) (string, error) {
	h := sha256.New()
	fmt.Fprintf(h, "%s|%s|%v|%d|%d|%s", rf.Property, rf.Violation.Key(), rf.Tape, rf.Seed, rf.RunIndex, rf.Script)
	name := fmt.Sprintf("%s-%s.json", rf.Property, hex.EncodeToString(h.Sum(nil))[:10])
	dir := filepath.Join(s.VerifDir, "replays")
	os.MkdirAll(dir, 0o755)
	path := filepath.Join(dir, name)
	b, _ := json.MarshalIndent(rf, "", " ")
	if err := os.WriteFile(path, b, 0o644); err != nil {
		return "", err
	}
	return path, nil
}

// ReplayOne runs a replay file once in a fresh worker and reports whether its violation reproduced.
func (s *Supervisor) ReplayOne(rf *ReplayFile) (bool, *Result, error) {
	ev := &evaluator{s: s}
	defer ev.close()
	var res *Result
	var err error
	if rf.Script != nil {
		res, err = ev.eval(&Command{Op: "one", UseTap: true, Script: rf.Script, Log: true})
	} else if rf.Tape != nil {
		res, err = ev.eval(&Command{Op: "one", UseTap: true, Tape: rf.Tape, Log: true})
	} else {
		res, err = ev.eval(&Command{Op: "one", Index: rf.RunIndex, Log: true})
	}
	if err != nil {
		return false, nil, err
	}
	return hasKey(res, rf.Violation.Key()), res, nil
}

func LoadReplay(path string) (*ReplayFile, error) {
	b, err := os.ReadFile(path)
	if err != nil {
		return nil, err
	}
	rf := &ReplayFile{}
	if err := json.Unmarshal(b, rf); err != nil {
		return nil, err
	}
	return rf, nil
}

// RepoTreeID identifies the tree under test: HEAD plus a hash of the working tree diff.
func RepoTreeID() string {
	repo := os.Getenv("VERIF_REPO")
	if repo == "" {
		repo = "/repo"
	}
	head, _ := exec.Command("git", "-C", repo, "rev-parse", "--short", "HEAD").Output()
	diff, _ := exec.Command("git", "-C", repo, "diff", "HEAD").Output()
	id := strings.TrimSpace(string(head))
	if len(bytes.TrimSpace(diff)) > 0 {
		h := sha256.Sum256(diff)
		id += "+dirty-" + hex.EncodeToString(h[:])[:8]
	}
	return id
}

// Shrink minimises a failing tape: truncation, chunk deletion (ddmin style), zeroing, halving.
func Shrink(tp []uint32, test func([]uint32) bool, budget time.Duration) []uint32 {
	deadline := time.Now().Add(budget)
	cur := append([]uint32(nil), tp...)
	try := func(cand []uint32) bool {
		if time.Now().After(deadline) {
			return false
		}
		if test(cand) {
			cur = append([]uint32(nil), cand...)
			return true
		}
		return false
	}
	// 1. truncate from the end (binary search for the shortest failing prefix; zeros continue the tape)
	lo, hi := 0, len(cur)
	for lo < hi && time.Now().Before(deadline) {
		mid := (lo + hi) / 2
		if test(cur[:mid]) {
			hi = mid
		} else {
			lo = mid + 1
		}
	}
	if hi < len(cur) {
		try(cur[:hi])
	}
	for pass := 0; pass < 6 && time.Now().Before(deadline); pass++ {
		before := fmt.Sprint(cur)
		// 2. delete chunks
		for size := len(cur) / 2; size >= 1; size /= 2 {
			for i := 0; i+size <= len(cur) && time.Now().Before(deadline); {
				cand := append(append([]uint32(nil), cur[:i]...), cur[i+size:]...)
				if !try(cand) {
					i += size
				}
			}
		}
		// 3. zero chunks then single entries
		for size := len(cur) / 2; size >= 1; size /= 2 {
			for i := 0; i+size <= len(cur) && time.Now().Before(deadline); i += size {
				nz := false
				for _, v := range cur[i : i+size] {
					if v != 0 {
						nz = true
					}
				}
				if !nz {
					continue
				}
				cand := append([]uint32(nil), cur...)
				for j := i; j < i+size; j++ {
					cand[j] = 0
				}
				try(cand)
			}
		}
		// 4. reduce single entries: halve, decrement
		for i := 0; i < len(cur) && time.Now().Before(deadline); i++ {
			for cur[i] > 0 {
				cand := append([]uint32(nil), cur...)
				cand[i] = cur[i] / 2
				if try(cand) {
					continue
				}
				cand[i] = cur[i] - 1
				if !try(cand) {
					break
				}
			}
		}
		// trailing zeros are implicit
		for len(cur) > 0 && cur[len(cur)-1] == 0 {
			cur = cur[:len(cur)-1]
		}
		if fmt.Sprint(cur) == before {
			break
		}
	}
	return cur
}

// errUnconfirmed: an Engine G failure that did not reproduce in any fresh process.
type errUnconfirmed struct {
	key      string
	attempts int
}

func (e *errUnconfirmed) Error() string {
	return fmt.Sprintf("%s did not reproduce in %d fresh processes", e.key, e.attempts)
}

// ShrinkScript minimises a failing script by deleting operations (ddmin style); element 0 (the
// configuration) is kept.
func ShrinkScript(sc []json.RawMessage, test func([]json.RawMessage) bool, budget time.Duration) []json.RawMessage {
	deadline := time.Now().Add(budget)
	cur := append([]json.RawMessage(nil), sc...)
	for pass := 0; pass < 8 && time.Now().Before(deadline); pass++ {
		changed := false
		for size := (len(cur) - 1) / 2; size >= 1; size /= 2 {
			for i := 1; i+size <= len(cur) && time.Now().Before(deadline); {
				cand := append(append([]json.RawMessage(nil), cur[:i]...), cur[i+size:]...)
				if test(cand) {
					cur = cand
					changed = true
				} else {
					i += size
				}
			}
		}
		if !changed {
			break
		}
	}
	return cur
}
