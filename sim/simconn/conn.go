// Package simconn is the simulated transport: a net.Conn whose inbound bytes are delivered by the
// simulation driver in tape-chosen chunks and whose outbound bytes are captured for the scripted peer.
// Read blocks on a channel created inside the synctest bubble, so a goroutine waiting for bytes is
// durably blocked and the bubble can go idle. No sockets are involved.
package simconn

import (
	"errors"
	"io"
	"net"
	"sync"
	"time"
)

type Conn struct {
	mu           sync.Mutex
	in           []byte
	wake         chan struct{}
	localClosed  bool
	remoteClosed bool
	out          []byte
	Written      int // total bytes written by the node
	ReadBytes    int // total bytes consumed by the node
	name         string
}

// New must be called inside the bubble.
func New(name string) *Conn {
	return &Conn{wake: make(chan struct{}, 1), name: name}
}

var errClosed = errors.New("use of closed network connection")

func (c *Conn) Read(b []byte) (int, error) {
	for {
		c.mu.Lock()
		if c.localClosed {
			c.mu.Unlock()
			return 0, errClosed
		}
		if len(c.in) > 0 {
			n := copy(b, c.in)
			c.in = c.in[n:]
			c.ReadBytes += n
			c.mu.Unlock()
			return n, nil
		}
		if c.remoteClosed {
			c.mu.Unlock()
			return 0, io.EOF
		}
		c.mu.Unlock()
		<-c.wake
	}
}

func (c *Conn) Write(b []byte) (int, error) {
	c.mu.Lock()
	defer c.mu.Unlock()
	if c.localClosed {
		return 0, errClosed
	}
	if c.remoteClosed {
		return 0, errors.New("write: connection reset by peer")
	}
	c.out = append(c.out, b...)
	c.Written += len(b)
	return len(b), nil
}

func (c *Conn) Close() error {
	c.mu.Lock()
	c.localClosed = true
	c.mu.Unlock()
	c.signal()
	return nil
}

func (c *Conn) signal() {
	select {
	case c.wake <- struct{}{}:
	default:
	}
}

// Deliver makes bytes readable by the node (driver side).
func (c *Conn) Deliver(b []byte) {
	c.mu.Lock()
	c.in = append(c.in, b...)
	c.mu.Unlock()
	c.signal()
}

// CloseRemote simulates the peer closing the connection (driver side).
func (c *Conn) CloseRemote() {
	c.mu.Lock()
	c.remoteClosed = true
	c.mu.Unlock()
	c.signal()
}

// TakeOutput returns and clears what the node wrote since the last call (driver side).
func (c *Conn) TakeOutput() []byte {
	c.mu.Lock()
	defer c.mu.Unlock()
	o := c.out
	c.out = nil
	return o
}

// Unread is the number of delivered bytes the node has not consumed yet.
func (c *Conn) Unread() int {
	c.mu.Lock()
	defer c.mu.Unlock()
	return len(c.in)
}

func (c *Conn) LocallyClosed() bool {
	c.mu.Lock()
	defer c.mu.Unlock()
	return c.localClosed
}

type addr string

func (a addr) Network() string { return "sim" }
func (a addr) String() string  { return string(a) }

func (c *Conn) LocalAddr() net.Addr                { return addr("local") }
func (c *Conn) RemoteAddr() net.Addr               { return addr(c.name) }
func (c *Conn) SetDeadline(t time.Time) error      { return nil }
func (c *Conn) SetReadDeadline(t time.Time) error  { return nil }
func (c *Conn) SetWriteDeadline(t time.Time) error { return nil }

var _ net.Conn = (*Conn)(nil)
