package blockworld

import (
	"sort"
	"sync"
)

// Parker implements the SimYield hook of the code under test: at the marked scheduling points a
// goroutine may be held (a stalled goroutine fault) until the driver releases it. Whether the k-th
// arrival at a site is held is fixed by a plan drawn from the tape at the start of the run, so the
// decision never depends on goroutine timing; which held goroutine is released next is the driver's
// (tape's) choice.
type Parker struct {
	mu     sync.Mutex
	plan   map[string][]bool
	hits   map[string]int
	parked []*Parked
	seq    int
	off    bool
	Held   int // number of times a goroutine was held
}

type Parked struct {
	Site string
	Seq  int
	ch   chan struct{}
}

// Sites are the scheduling points marked in the code under test.
var Sites = []string{
	"BlockDownloader.Run before start select",
	"BlockDownloader.Run before complete select",
	"BlockDownloader.Stop entry",
	"BlockDownloader.Cancel entry",
	"BlockDownloader.HandleBlock entry",
	"BlockDownloader.HandleBlock before complete",
	"BlockManager.processRequest before select",
	"BlockManager.onDownloaderCompleted entry",
	"TxManager.AddTxID between map and tx lock",
	"TxManager.AddTx between map and tx lock",
	"TxManager.AddTx before send",
}

// NewParker draws the plan: for each site, which of its first 8 arrivals are held.
func NewParker(draw func(n int) int, rate int) *Parker {
	p := &Parker{plan: map[string][]bool{}, hits: map[string]int{}}
	for _, s := range Sites {
		l := make([]bool, 8)
		for i := range l {
			l[i] = rate > 0 && draw(rate) == rate-1
		}
		p.plan[s] = l
	}
	return p
}

// Hook is installed as bitcoin_reader.SimYield.
func (p *Parker) Hook(site string) {
	p.mu.Lock()
	if p.off {
		p.mu.Unlock()
		return
	}
	k := p.hits[site]
	p.hits[site] = k + 1
	l := p.plan[site]
	if k >= len(l) || !l[k] {
		p.mu.Unlock()
		return
	}
	p.seq++
	g := &Parked{Site: site, Seq: p.seq, ch: make(chan struct{})}
	p.parked = append(p.parked, g)
	p.Held++
	p.mu.Unlock()
	<-g.ch
}

// List returns the held goroutines in a canonical order (site, then arrival).
func (p *Parker) List() []*Parked {
	p.mu.Lock()
	defer p.mu.Unlock()
	l := append([]*Parked(nil), p.parked...)
	sort.Slice(l, func(i, j int) bool {
		if l[i].Site != l[j].Site {
			return l[i].Site < l[j].Site
		}
		return l[i].Seq < l[j].Seq
	})
	return l
}

// Release lets one held goroutine continue.
func (p *Parker) Release(g *Parked) {
	p.mu.Lock()
	for i, x := range p.parked {
		if x == g {
			p.parked = append(p.parked[:i], p.parked[i+1:]...)
			break
		}
	}
	p.mu.Unlock()
	close(g.ch)
}

// ReleaseAll stops holding: everything held continues and nothing is held from now on.
func (p *Parker) ReleaseAll() {
	p.mu.Lock()
	p.off = true
	l := p.parked
	p.parked = nil
	p.mu.Unlock()
	for _, g := range l {
		close(g.ch)
	}
}

// Only restricts holding to the given sites.
func (p *Parker) Only(sites ...string) {
	keep := map[string]bool{}
	for _, s := range sites {
		keep[s] = true
	}
	for s := range p.plan {
		if !keep[s] {
			p.plan[s] = nil
		}
	}
}
