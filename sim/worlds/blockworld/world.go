// Package blockworld is Engine G for block downloading: the real BlockDownloader and BlockManager run
// on their own goroutines inside a synctest bubble; the block sources (peers), the transaction
// processor and the block store are simulator-owned seams. The driver decides, at call granularity,
// which source starts its handler, hands over the next transaction, ends or cuts its stream, drops,
// and when the manager aborts or the process shuts down.
package blockworld

import (
	"context"
	"errors"
	"fmt"
	"sync"

	"github.com/google/uuid"
	bitcoin_reader "github.com/tokenized/bitcoin_reader"
	"github.com/tokenized/pkg/bitcoin"
	"github.com/tokenized/pkg/merkle_proof"
	"github.com/tokenized/pkg/wire"

	"verif/sim/model"
)

// Call is one call received by the recording processor / block store.
type Call struct {
	Kind   string // ProcessTx, ProcessCoinbaseTx, ConfirmTx, AppendBlockTxIDs
	TxID   bitcoin.Hash32
	Block  bitcoin.Hash32
	Height int
	Proof  *merkle_proof.MerkleProof
	List   []bitcoin.Hash32
	Err    bool
}

// Recorder is the recording, fault injecting TxProcessor and BlockTxManager.
type Recorder struct {
	mu       sync.Mutex
	Calls    []Call
	Relevant map[bitcoin.Hash32]bool
	// FailAt maps a call kind to the 1-based index of the call of that kind that returns an error.
	FailAt    map[string]int
	counts    map[string]int
	Processed map[bitcoin.Hash32][]bitcoin.Hash32 // block store contents
	Injected  int
}

func NewRecorder() *Recorder {
	return &Recorder{Relevant: map[bitcoin.Hash32]bool{}, FailAt: map[string]int{}, counts: map[string]int{},
		Processed: map[bitcoin.Hash32][]bitcoin.Hash32{}}
}

var ErrInjected = errors.New("injected processor error")

func (r *Recorder) note(c Call) error {
	r.mu.Lock()
	defer r.mu.Unlock()
	r.counts[c.Kind]++
	if k, ok := r.FailAt[c.Kind]; ok && k == r.counts[c.Kind] {
		c.Err = true
		r.Injected++
		r.Calls = append(r.Calls, c)
		return ErrInjected
	}
	r.Calls = append(r.Calls, c)
	return nil
}

// IsProcessed reports whether the block store holds an entry for the block.
func (r *Recorder) IsProcessed(h bitcoin.Hash32) bool {
	r.mu.Lock()
	defer r.mu.Unlock()
	_, ok := r.Processed[h]
	return ok
}

func (r *Recorder) Snapshot() []Call {
	r.mu.Lock()
	defer r.mu.Unlock()
	return append([]Call(nil), r.Calls...)
}

func (r *Recorder) ProcessTx(ctx context.Context, tx *wire.MsgTx) (bool, error) {
	h := *tx.TxHash()
	if err := r.note(Call{Kind: "ProcessTx", TxID: h}); err != nil {
		return false, err
	}
	r.mu.Lock()
	defer r.mu.Unlock()
	return r.Relevant[h], nil
}
func (r *Recorder) CancelTx(ctx context.Context, txid bitcoin.Hash32) error { return nil }
func (r *Recorder) AddTxConflict(ctx context.Context, txid, c bitcoin.Hash32) error {
	return nil
}
func (r *Recorder) ConfirmTx(ctx context.Context, txid bitcoin.Hash32, height int, mp *merkle_proof.MerkleProof) error {
	cp := mp.Copy()
	return r.note(Call{Kind: "ConfirmTx", TxID: txid, Height: height, Proof: &cp})
}
func (r *Recorder) UpdateTxChainDepth(ctx context.Context, txid bitcoin.Hash32, d uint32) error {
	return nil
}
func (r *Recorder) ProcessCoinbaseTx(ctx context.Context, blockHash bitcoin.Hash32, tx *wire.MsgTx) error {
	var h bitcoin.Hash32
	if tx != nil {
		h = *tx.TxHash()
	}
	return r.note(Call{Kind: "ProcessCoinbaseTx", Block: blockHash, TxID: h})
}
func (r *Recorder) FetchBlockTxIDs(ctx context.Context, blockHash bitcoin.Hash32) ([]bitcoin.Hash32, bool, error) {
	r.mu.Lock()
	defer r.mu.Unlock()
	l, ok := r.Processed[blockHash]
	return l, ok, nil
}
func (r *Recorder) AppendBlockTxIDs(ctx context.Context, blockHash bitcoin.Hash32, txids []bitcoin.Hash32) error {
	if err := r.note(Call{Kind: "AppendBlockTxIDs", Block: blockHash, List: append([]bitcoin.Hash32(nil), txids...)}); err != nil {
		return err
	}
	r.mu.Lock()
	defer r.mu.Unlock()
	r.Processed[blockHash] = append([]bitcoin.Hash32(nil), txids...)
	return nil
}

// Block is a simulated block.
type Block struct {
	Header *wire.BlockHeader
	Hash   bitcoin.Hash32
	Txs    []*wire.MsgTx
	TxIDs  []bitcoin.Hash32
}

// MakeBlock builds a block of n small unique transactions with a correct merkle root.
func MakeBlock(seed uint32, n int, mk func(seed uint32, extra int) *wire.MsgTx) *Block {
	b := &Block{}
	for i := 0; i < n; i++ {
		tx := mk(seed*100000+uint32(i), int(seed+uint32(i))%7)
		b.Txs = append(b.Txs, tx)
		b.TxIDs = append(b.TxIDs, *tx.TxHash())
	}
	b.Header = &wire.BlockHeader{Version: 1, Timestamp: 1600000000 + seed, Bits: 0x1d00ffff, Nonce: seed, MerkleRoot: model.MerkleRoot(b.TxIDs)}
	b.Hash = *b.Header.BlockHash()
	return b
}

// Source is one simulated block source (a peer that was asked for a block).
type Source struct {
	ID                uuid.UUID
	N                 int
	Hash              bitcoin.Hash32
	Handler           bitcoin_reader.HandleBlock
	OnStop            bitcoin_reader.OnStop
	Started           bool // handler goroutine started
	Cancelled         bool // CancelBlockRequest was called
	Ended             bool // stream ended (channel closed)
	Dropped           bool // onStop was called
	Ch                chan *wire.MsgTx
	Fed               int
	Done              chan error // handler return
	Returned          bool
	Result            error
	mu                sync.Mutex
	CancelSeenStarted bool
}

func (s *Source) UUID() uuid.UUID { return s.ID }

// canceller is what the downloader sees.
type canceller struct{ s *Source }

func (c canceller) ID() uuid.UUID { return c.s.ID }
func (c canceller) CancelBlockRequest(ctx context.Context, hash bitcoin.Hash32) bool {
	c.s.mu.Lock()
	defer c.s.mu.Unlock()
	c.s.Cancelled = true
	c.s.CancelSeenStarted = c.s.Started
	return c.s.Started
}

// Requestor is the simulated BlockRequestor.
type Requestor struct {
	mu      sync.Mutex
	Sources []*Source
	// Plan decides the answer to the next RequestBlock: "ok", "none" (no node available), "error".
	Plan     func(n int) string
	Requests []bitcoin.Hash32
	// ProcessedAtRequest[i]: the block of request i was already recorded as processed when the
	// request was made (observed inside the call, so it does not depend on when the driver looks).
	ProcessedAtRequest []bool
	IsProcessed        func(bitcoin.Hash32) bool
}

var errSource = errors.New("simulated source error")

func (r *Requestor) RequestBlock(ctx context.Context, hash bitcoin.Hash32, handler bitcoin_reader.HandleBlock,
	onStop bitcoin_reader.OnStop) (bitcoin_reader.BlockRequestCanceller, error) {
	r.mu.Lock()
	defer r.mu.Unlock()
	n := len(r.Requests)
	r.Requests = append(r.Requests, hash)
	r.ProcessedAtRequest = append(r.ProcessedAtRequest, r.IsProcessed != nil && r.IsProcessed(hash))
	answer := "ok"
	if r.Plan != nil {
		answer = r.Plan(n)
	}
	switch answer {
	case "none":
		return nil, bitcoin_reader.ErrNodeNotAvailable
	case "error":
		return nil, errSource
	}
	var id uuid.UUID
	copy(id[:], fmt.Sprintf("source-%08d....", len(r.Sources)))
	s := &Source{ID: id, N: len(r.Sources), Hash: hash, Handler: handler, OnStop: onStop, Done: make(chan error, 1)}
	r.Sources = append(r.Sources, s)
	return canceller{s}, nil
}

func (r *Requestor) All() []*Source {
	r.mu.Lock()
	defer r.mu.Unlock()
	return append([]*Source(nil), r.Sources...)
}
