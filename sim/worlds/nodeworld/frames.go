// Package nodeworld is Engine G for one or several real BitcoinNodes: the unmodified node code runs on
// its own goroutines inside a synctest bubble over simulated connections; the peers are state machines
// evaluated by the single driver goroutine at quiescent points; the tape chooses chunking, delays,
// faults and workload.
package nodeworld

import (
	"bytes"
	"crypto/sha256"
	"encoding/binary"

	"github.com/tokenized/pkg/bitcoin"
	"github.com/tokenized/pkg/wire"
)

const MainNetMagic = uint32(0xe8f3e1e3)

func checksum(p []byte) []byte {
	a := sha256.Sum256(p)
	b := sha256.Sum256(a[:])
	return b[:4]
}

// Frame builds a classic P2P message: magic, command, length, checksum, payload.
func Frame(cmd string, payload []byte) []byte {
	b := make([]byte, 24, 24+len(payload))
	binary.LittleEndian.PutUint32(b[0:], MainNetMagic)
	copy(b[4:16], cmd)
	binary.LittleEndian.PutUint32(b[16:], uint32(len(payload)))
	copy(b[20:24], checksum(payload))
	return append(b, payload...)
}

// FrameExt builds an extended format message (protocol 70016): "extmsg" header with length
// 0xffffffff and zero checksum, then the 12 byte inner command, the 8 byte payload length, the payload.
func FrameExt(cmd string, payload []byte, declared uint64) []byte {
	b := make([]byte, 24+12+8, 24+20+len(payload))
	binary.LittleEndian.PutUint32(b[0:], MainNetMagic)
	copy(b[4:16], wire.CmdExtended)
	binary.LittleEndian.PutUint32(b[16:], 0xffffffff)
	copy(b[24:36], cmd)
	binary.LittleEndian.PutUint64(b[36:], declared)
	return append(b, payload...)
}

// Msg is a message parsed from the node's output.
type Msg struct {
	Cmd     string
	Payload []byte
}

// ParseFrames extracts the complete classic frames from buf and returns the remainder.
func ParseFrames(buf []byte) ([]Msg, []byte, bool) {
	var out []Msg
	for len(buf) >= 24 {
		if binary.LittleEndian.Uint32(buf[0:]) != MainNetMagic {
			return out, buf, false
		}
		n := int(binary.LittleEndian.Uint32(buf[16:]))
		if len(buf) < 24+n {
			break
		}
		cmd := string(bytes.TrimRight(buf[4:16], "\x00"))
		out = append(out, Msg{Cmd: cmd, Payload: append([]byte(nil), buf[24:24+n]...)})
		buf = buf[24+n:]
	}
	return out, buf, true
}

func varint(n uint64) []byte {
	var b bytes.Buffer
	wire.WriteVarInt(&b, 0, n)
	return b.Bytes()
}

// HeadersPayload encodes a headers message payload (each header followed by a zero tx count).
func HeadersPayload(hs []*wire.BlockHeader) []byte {
	var b bytes.Buffer
	b.Write(varint(uint64(len(hs))))
	for _, h := range hs {
		h.Serialize(&b)
		b.WriteByte(0)
	}
	return b.Bytes()
}

func InvPayload(typ uint32, hashes []bitcoin.Hash32) []byte {
	var b bytes.Buffer
	b.Write(varint(uint64(len(hashes))))
	for _, h := range hashes {
		binary.Write(&b, binary.LittleEndian, typ)
		b.Write(h[:])
	}
	return b.Bytes()
}

// MakeTx builds a small valid transaction that is unique for (seed, size).
func MakeTx(seed uint32, extra int) *wire.MsgTx {
	tx := wire.NewMsgTx(1)
	var prev bitcoin.Hash32
	binary.LittleEndian.PutUint32(prev[:], seed)
	prev[31] = 0x77
	script := make([]byte, 4+extra)
	binary.LittleEndian.PutUint32(script, seed)
	tx.AddTxIn(wire.NewTxIn(wire.NewOutPoint(&prev, seed%7), script))
	tx.AddTxOut(wire.NewTxOut(uint64(1000+seed%1000), []byte{0x6a, byte(seed), byte(seed >> 8)}))
	return tx
}

func TxBytes(tx *wire.MsgTx) []byte {
	var b bytes.Buffer
	tx.Serialize(&b)
	return b.Bytes()
}

// BlockPayload encodes a block: header, tx count, transactions.
func BlockPayload(h *wire.BlockHeader, announced uint64, txs []*wire.MsgTx) []byte {
	var b bytes.Buffer
	h.Serialize(&b)
	b.Write(varint(announced))
	for _, tx := range txs {
		tx.Serialize(&b)
	}
	return b.Bytes()
}

func VersionPayload(height int32) []byte {
	local := wire.NewNetAddressIPPort([]byte{127, 0, 0, 1}, 8333, 0)
	v := wire.NewMsgVersion(local, local, 0x1122334455667788, height)
	v.UserAgent = "/SimPeer:1.0/"
	v.Services = 1
	var b bytes.Buffer
	v.BtcEncode(&b, wire.ProtocolVersion)
	return b.Bytes()
}

func PingPayload(nonce uint64) []byte {
	b := make([]byte, 8)
	binary.LittleEndian.PutUint64(b, nonce)
	return b
}

func AddrPayload(n int, seed uint32) []byte {
	var b bytes.Buffer
	b.Write(varint(uint64(n)))
	for i := 0; i < n; i++ {
		binary.Write(&b, binary.LittleEndian, uint32(1600000000)) // timestamp
		binary.Write(&b, binary.LittleEndian, uint64(1))          // services
		ip := make([]byte, 16)
		ip[10], ip[11] = 0xff, 0xff
		ip[12], ip[13], ip[14], ip[15] = 10, byte(seed), byte(i>>8), byte(i)
		b.Write(ip)
		binary.Write(&b, binary.BigEndian, uint16(8333))
	}
	return b.Bytes()
}

func ProtoconfPayload() []byte {
	var b bytes.Buffer
	wire.NewMsgProtoconf().BtcEncode(&b, wire.ProtocolVersion)
	return b.Bytes()
}
