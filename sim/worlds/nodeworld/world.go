package nodeworld

import (
	"bytes"
	"context"
	"encoding/binary"
	"fmt"
	"sync"
	"testing/synctest"
	"time"

	bitcoin_reader "github.com/tokenized/bitcoin_reader"
	"github.com/tokenized/bitcoin_reader/headers"
	"github.com/tokenized/config"
	"github.com/tokenized/logger"
	"github.com/tokenized/pkg/bitcoin"
	"github.com/tokenized/pkg/merkle_proof"
	"github.com/tokenized/pkg/wire"

	"verif/sim/core"
	"verif/sim/simconn"
	"verif/sim/simstore"
)

// SpyCall is one call that reached a repository or processor seam.
type SpyCall struct {
	Name     string
	Verified bool // Verified() of the owning node at call time
	Node     int
	// ProcessHeader calls only: the submitted header's hash, whether the repository knew that hash before
	// the call, and the repository's answer.
	Hash        *bitcoin.Hash32
	Prev        *bitcoin.Hash32
	KnownBefore bool
	Err         error
}

// Recorder collects calls from node goroutines.
type Recorder struct {
	mu    sync.Mutex
	calls []SpyCall
}

func (r *Recorder) add(c SpyCall) {
	r.mu.Lock()
	r.calls = append(r.calls, c)
	r.mu.Unlock()
}

func (r *Recorder) Calls() []SpyCall {
	r.mu.Lock()
	defer r.mu.Unlock()
	return append([]SpyCall(nil), r.calls...)
}

func (r *Recorder) Count(name string) int {
	n := 0
	for _, c := range r.Calls() {
		if c.Name == name {
			n++
		}
	}
	return n
}

// headerSpy wraps the real header repository for one node.
type headerSpy struct {
	real *headers.Repository
	rec  *Recorder
	peer *Peer
}

func (s *headerSpy) note(name string) {
	v := false
	if s.peer != nil && s.peer.Node != nil {
		v = s.peer.Node.Verified()
	}
	id := -1
	if s.peer != nil {
		id = s.peer.ID
	}
	s.rec.add(SpyCall{Name: name, Verified: v, Node: id})
}

func (s *headerSpy) GetNewHeadersAvailableChannel() <-chan *wire.BlockHeader {
	return s.real.GetNewHeadersAvailableChannel()
}
func (s *headerSpy) Height() int { return s.real.Height() }
func (s *headerSpy) Hash(ctx context.Context, height int) (*bitcoin.Hash32, error) {
	return s.real.Hash(ctx, height)
}
func (s *headerSpy) HashHeight(hash bitcoin.Hash32) int { return s.real.HashHeight(hash) }
func (s *headerSpy) LastHash() bitcoin.Hash32           { return s.real.LastHash() }
func (s *headerSpy) LastTime() uint32                   { return s.real.LastTime() }
func (s *headerSpy) PreviousHash(h bitcoin.Hash32) (*bitcoin.Hash32, int) {
	return s.real.PreviousHash(h)
}
func (s *headerSpy) GetLocatorHashes(ctx context.Context, max int) ([]bitcoin.Hash32, error) {
	s.note("headers.GetLocatorHashes")
	return s.real.GetLocatorHashes(ctx, max)
}
func (s *headerSpy) GetVerifyOnlyLocatorHashes(ctx context.Context) ([]bitcoin.Hash32, error) {
	return s.real.GetVerifyOnlyLocatorHashes(ctx)
}
func (s *headerSpy) VerifyHeader(ctx context.Context, header *wire.BlockHeader) error {
	s.note("headers.VerifyHeader")
	return s.real.VerifyHeader(ctx, header)
}
func (s *headerSpy) ProcessHeader(ctx context.Context, header *wire.BlockHeader) error {
	s.note("headers.ProcessHeader")
	hash := *header.BlockHash()
	known := s.real.HashHeight(hash) >= 0
	err := s.real.ProcessHeader(ctx, header)
	s.rec.add(SpyCall{Name: "headers.ProcessHeader.result", Node: -1, Hash: &hash, Prev: &header.PrevBlock, KnownBefore: known, Err: err})
	return err
}
func (s *headerSpy) Stop(ctx context.Context) { s.real.Stop(ctx) }

type peerSpy struct {
	real *bitcoin_reader.StoragePeerRepository
	rec  *Recorder
	peer *Peer
}

func (s *peerSpy) note(name string) {
	v := false
	id := -1
	if s.peer != nil {
		id = s.peer.ID
		if s.peer.Node != nil {
			v = s.peer.Node.Verified()
		}
	}
	s.rec.add(SpyCall{Name: name, Verified: v, Node: id})
}
func (s *peerSpy) Add(ctx context.Context, address string) (bool, error) {
	s.note("peers.Add")
	return s.real.Add(ctx, address)
}
func (s *peerSpy) Get(ctx context.Context, minScore, maxScore int32) (bitcoin_reader.PeerList, error) {
	s.note("peers.Get")
	return s.real.Get(ctx, minScore, maxScore)
}
func (s *peerSpy) UpdateTime(ctx context.Context, address string) bool {
	s.note("peers.UpdateTime")
	return s.real.UpdateTime(ctx, address)
}
func (s *peerSpy) UpdateScore(ctx context.Context, address string, delta int32) bool {
	s.note("peers.UpdateScore")
	return s.real.UpdateScore(ctx, address, delta)
}

// Processor is a counting TxProcessor / TxSaver.
type Processor struct {
	mu       sync.Mutex
	Txs      map[bitcoin.Hash32]int
	Saved    map[bitcoin.Hash32]int
	Relevant func(bitcoin.Hash32) bool
	Order    []bitcoin.Hash32
}

func NewProcessor() *Processor {
	return &Processor{Txs: map[bitcoin.Hash32]int{}, Saved: map[bitcoin.Hash32]int{}}
}

func (p *Processor) ProcessTx(ctx context.Context, tx *wire.MsgTx) (bool, error) {
	p.mu.Lock()
	defer p.mu.Unlock()
	h := *tx.TxHash()
	p.Txs[h]++
	p.Order = append(p.Order, h)
	return p.Relevant != nil && p.Relevant(h), nil
}
func (p *Processor) SaveTx(ctx context.Context, tx *wire.MsgTx) error {
	p.mu.Lock()
	defer p.mu.Unlock()
	p.Saved[*tx.TxHash()]++
	return nil
}
func (p *Processor) CancelTx(ctx context.Context, txid bitcoin.Hash32) error { return nil }
func (p *Processor) AddTxConflict(ctx context.Context, txid, c bitcoin.Hash32) error {
	return nil
}
func (p *Processor) ConfirmTx(ctx context.Context, txid bitcoin.Hash32, h int, mp *merkle_proof.MerkleProof) error {
	return nil
}
func (p *Processor) UpdateTxChainDepth(ctx context.Context, txid bitcoin.Hash32, d uint32) error {
	return nil
}
func (p *Processor) ProcessCoinbaseTx(ctx context.Context, blockHash bitcoin.Hash32, tx *wire.MsgTx) error {
	return nil
}
func (p *Processor) Count(h bitcoin.Hash32) int {
	p.mu.Lock()
	defer p.mu.Unlock()
	return p.Txs[h]
}
func (p *Processor) SavedCount(h bitcoin.Hash32) int {
	p.mu.Lock()
	defer p.mu.Unlock()
	return p.Saved[h]
}
func (p *Processor) Total() int {
	p.mu.Lock()
	defer p.mu.Unlock()
	n := 0
	for _, v := range p.Txs {
		n += v
	}
	return n
}

// Peer is one scripted peer and the node connected to it.
type Peer struct {
	ID   int
	Node *bitcoin_reader.BitcoinNode
	Conn *simconn.Conn

	outBuf   []byte // unparsed node output
	Received []Msg  // everything the node sent
	pending  []byte // bytes the peer has sent that are not yet delivered to the node
	Desync   bool   // node output was not a valid frame sequence

	done     chan error
	Managed  bool // run by a NodeManager thread; completion observed through IsStopped
	Returned bool
	RunErr   error

	// behaviour
	AutoVersion  bool
	AutoPong     bool
	VerifyReply  func() []byte // reply to the first getheaders (verification); nil = no reply
	OnGetData    func(m Msg) []byte
	OnGetHeaders func(m Msg) []byte
	getHeaders   int
	SawVersion   bool
}

type Options struct {
	VerifyOnly bool
	TxManager  bool
	TxTimeout  time.Duration
	Repo       *headers.Repository // nil: fresh mainnet repository at genesis with difficulty off
	// ProductionRepo keeps difficulty and split protection on (the production configuration).
	ProductionRepo bool
	// NoNode: only build the repositories (dry script generation).
	NoNode      bool
	NodeTimeout time.Duration
}

type World struct {
	C      *core.Ctx
	Ctx    context.Context
	Cfg    *bitcoin_reader.Config
	Repo   *headers.Repository
	Book   *bitcoin_reader.StoragePeerRepository
	Rec    *Recorder
	Proc   *Processor
	TxM    *bitcoin_reader.TxManager
	txDone chan error

	// FD, if set (Engine F phase, instrumented build), schedules the node's goroutines statement by
	// statement; Early is the per-step probability (per mille) of leaving them mid-call when the driver
	// performs its next action.
	FD    *core.FDriver
	Early int

	// NoDelay suppresses delivery delays (used while a handshake with its 3 s deadline is set up).
	NoDelay bool

	Peers     []*Peer
	interrupt chan interface{}
	opts      Options
	start     time.Time
}

// StartF installs the Engine F scheduler for this run when the instrumented build is running (Engine F
// phase); the returned function must be deferred. Call it before New.
func StartF(c *core.Ctx) (*core.FDriver, func()) {
	if !core.FAvailable() {
		return nil, func() {}
	}
	fd := core.NewFDriver(c.T)
	// a stalled goroutine resumes when nothing else can run: the node's own deadlines (3 s handshake,
	// message handler warnings) are part of what the oracles judge, so stalls do not span simulated time
	fd.HoldFor = 0
	fd.S.Install()
	return fd, func() {
		fd.Finish(c)
		if !fd.Deadlocked() {
			synctest.Wait()
		}
		fd.S.Uninstall()
		c.SetInterleaving(fd.S.Hash(), fd.S.Steps())
		c.FaultN("schedule:goroutine-stalled", fd.Holds)
	}
}

// New builds the world inside the bubble.
func New(c *core.Ctx, o Options) *World {
	w := &World{C: c, Ctx: logger.ContextWithNoLogger(context.Background()), Rec: &Recorder{}, opts: o, start: time.Now()}
	w.Cfg = bitcoin_reader.DefaultConfig()
	if o.NodeTimeout > 0 {
		w.Cfg.Timeout = config.NewDuration(o.NodeTimeout)
	}
	store := simstore.New()
	if o.Repo != nil {
		w.Repo = o.Repo
	} else {
		w.Repo = headers.NewRepository(headers.DefaultConfig(), store)
		if !o.ProductionRepo {
			w.Repo.DisableDifficulty()
		}
		if err := w.Repo.Load(w.Ctx); err != nil {
			panic(err)
		}
	}
	w.Book = bitcoin_reader.NewPeerRepository(store, "")
	w.Proc = NewProcessor()
	if o.TxManager {
		to := o.TxTimeout
		if to == 0 {
			to = 2 * time.Second
		}
		w.TxM = bitcoin_reader.NewTxManager(to)
		w.TxM.SetTxProcessor(w.Proc)
		w.TxM.SetTxSaver(w.Proc)
		w.txDone = make(chan error, 1)
		go func() { w.txDone <- w.TxM.Run(w.Ctx) }()
	}
	w.interrupt = make(chan interface{})
	return w
}

// AddNode creates a node over a fresh simulated connection and starts it.
func (w *World) AddNode(verifyOnly bool) *Peer {
	p := &Peer{ID: len(w.Peers), Conn: simconn.New(fmt.Sprintf("peer%d", len(w.Peers))), done: make(chan error, 1),
		AutoVersion: true, AutoPong: true}
	hs := &headerSpy{real: w.Repo, rec: w.Rec, peer: p}
	ps := &peerSpy{real: w.Book, rec: w.Rec, peer: p}
	p.Node = bitcoin_reader.NewBitcoinNode(fmt.Sprintf("10.1.0.%d:8333", p.ID+1), "/sim/", w.Cfg, hs, ps)
	if verifyOnly {
		p.Node.SetVerifyOnly()
	}
	if w.TxM != nil {
		p.Node.SetTxManager(w.TxM)
	}
	p.VerifyReply = func() []byte {
		return Frame(wire.CmdHeaders, HeadersPayload([]*wire.BlockHeader{headers.MainNetRequiredHeader}))
	}
	w.Peers = append(w.Peers, p)
	go func() { p.done <- p.Node.RunWithConnection(w.Ctx, p.Conn, w.interrupt) }()
	return p
}

// AttachManagedNode adds a node to a real NodeManager over a simulated connection (verif hook).
func (w *World) AttachManagedNode(m *bitcoin_reader.NodeManager, i int) *Peer {
	p := &Peer{ID: len(w.Peers), Conn: simconn.New(fmt.Sprintf("managed%d", i)), done: make(chan error, 1),
		AutoVersion: true, AutoPong: true}
	p.VerifyReply = func() []byte {
		return Frame(wire.CmdHeaders, HeadersPayload([]*wire.BlockHeader{headers.MainNetRequiredHeader}))
	}
	p.Node = m.AddNodeWithConnection(w.Ctx, fmt.Sprintf("10.2.0.%d:8333", i+1), p.Conn)
	p.Managed = true
	p.Returned = false
	w.Peers = append(w.Peers, p)
	return p
}

// Send queues bytes from the peer towards the node.
func (p *Peer) Send(b ...[]byte) {
	for _, x := range b {
		p.pending = append(p.pending, x...)
	}
}

func (p *Peer) Pending() int { return len(p.pending) }

// react lets the scripted peer answer what the node sent (evaluated by the driver only).
func (w *World) react(p *Peer) {
	out := p.Conn.TakeOutput()
	if len(out) == 0 {
		return
	}
	p.outBuf = append(p.outBuf, out...)
	msgs, rest, ok := ParseFrames(p.outBuf)
	p.outBuf = rest
	if !ok {
		p.Desync = true
	}
	for _, m := range msgs {
		p.Received = append(p.Received, m)
		w.C.Event("peer%d <- node: %s (%d bytes)", p.ID, m.Cmd, len(m.Payload))
		switch m.Cmd {
		case wire.CmdVersion:
			p.SawVersion = true
			if p.AutoVersion {
				p.Send(Frame(wire.CmdVersion, VersionPayload(int32(w.Repo.Height()))), Frame(wire.CmdVerAck, nil))
			}
		case wire.CmdPing:
			if p.AutoPong {
				p.Send(Frame(wire.CmdPong, m.Payload))
			}
		case wire.CmdGetHeaders:
			p.getHeaders++
			if p.getHeaders == 1 {
				if p.VerifyReply != nil {
					if r := p.VerifyReply(); r != nil {
						p.Send(r)
					}
				}
			} else if p.OnGetHeaders != nil {
				if r := p.OnGetHeaders(m); r != nil {
					p.Send(r)
				}
			}
		case wire.CmdGetData:
			if p.OnGetData != nil {
				if r := p.OnGetData(m); r != nil {
					p.Send(r)
				}
			}
		}
	}
}

// poll notes whether a node's Run has returned.
func (w *World) poll(p *Peer) {
	if p.Returned {
		return
	}
	if p.Managed {
		if p.Node.IsStopped() {
			p.Returned = true
			w.C.Event("node%d (managed) stopped", p.ID)
		}
		return
	}
	select {
	case err := <-p.done:
		p.Returned = true
		p.RunErr = err
		w.C.Event("node%d Run returned: %v", p.ID, errShort(err))
	default:
	}
}

func errShort(err error) string {
	if err == nil {
		return "nil"
	}
	s := err.Error()
	if len(s) > 80 {
		s = s[:80]
	}
	return s
}

// Settle waits until every goroutine is durably blocked, then lets the peers react.
func (w *World) Settle() {
	if w.FD != nil {
		w.FD.Settle(w.Early, 1<<30)
	}
	synctest.Wait()
	for _, p := range w.Peers {
		w.react(p)
		w.poll(p)
	}
}

// Pump delivers all pending peer bytes in tape-chosen chunks (fragmentation fault), letting the
// system go quiescent and the peers react after every chunk, until nothing is pending.
func (w *World) Pump() { w.PumpChunks(-1) }

// PumpChunks is Pump limited to max deliveries (max < 0: until nothing is pending); it returns with
// bytes still pending when the limit is reached, so that the caller can act in the middle of a message.
func (w *World) PumpChunks(max int) {
	t := w.C.T
	delivered := 0
	for iter := 0; iter < 100000; iter++ {
		if max >= 0 && delivered >= max {
			w.Settle()
			return
		}
		delivered++
		w.Settle()
		var cands []*Peer
		for _, p := range w.Peers {
			if len(p.pending) > 0 {
				cands = append(cands, p)
			}
		}
		if len(cands) == 0 {
			if w.FD != nil && w.Early > 0 {
				// nothing left to deliver: run everything to rest before the caller looks at the state
				e := w.Early
				w.Early = 0
				w.Settle()
				w.Early = e
				for _, p := range w.Peers {
					if len(p.pending) > 0 {
						cands = append(cands, p)
					}
				}
				if len(cands) > 0 {
					continue // the peers reacted to what the node did while settling
				}
			}
			return
		}
		p := cands[t.Draw(len(cands))]
		if p.Returned || p.Conn.LocallyClosed() {
			// the node is gone; what the peer still wanted to send is lost
			p.pending = nil
			continue
		}
		n := len(p.pending)
		switch t.Weighted([]int{5, 2, 2, 1}) {
		case 1:
			n = 1 + t.Draw(n)
			w.C.Fault("fragmentation")
		case 2:
			if n > 24 {
				n = 1 + t.Draw(24) // cut inside a message header
				w.C.Fault("fragmentation")
			}
		case 3:
			n = 1
			w.C.Fault("fragmentation")
		}
		chunk := p.pending[:n]
		p.pending = p.pending[n:]
		p.Conn.Deliver(chunk)
		if !w.NoDelay && t.Chance(1, 8) {
			d := time.Duration(1+t.Draw(2000)) * time.Millisecond
			w.sleep(d)
			w.C.AddSimTime(int64(d))
			w.C.Fault("delivery-delay")
		}
	}
	panic("pump did not converge")
}

// Advance moves the fake clock forward; timers due fire and the system settles.
// Sleep lets simulated time pass (pumping the Engine F scheduler when there is one).
func (w *World) Sleep(d time.Duration) { w.sleep(d) }

func (w *World) sleep(d time.Duration) {
	if w.FD != nil {
		w.FD.Advance(d) // the scheduler is pumped while the clock runs
		return
	}
	time.Sleep(d)
}

func (w *World) Advance(d time.Duration) {
	w.sleep(d)
	w.C.AddSimTime(int64(d))
	w.Settle()
}

// HasCmd reports whether the node sent a message with this command to the peer.
func (p *Peer) HasCmd(cmd string) bool { return p.CountCmd(cmd) > 0 }

func (p *Peer) CountCmd(cmd string) int {
	n := 0
	for _, m := range p.Received {
		if m.Cmd == cmd {
			n++
		}
	}
	return n
}

// PongFor reports whether the node answered the ping with this nonce.
func (p *Peer) PongFor(nonce uint64) bool {
	for _, m := range p.Received {
		if m.Cmd == wire.CmdPong && len(m.Payload) == 8 && binary.LittleEndian.Uint64(m.Payload) == nonce {
			return true
		}
	}
	return false
}

// Shutdown ends the run: shutdown is signalled, connections die, and every goroutine must exit (the
// bubble reports goroutines that stay blocked).
func (w *World) Shutdown() {
	if w.FD != nil {
		w.FD.ReleaseAll()
		w.Early = 0
	}
	close(w.interrupt)
	for i := 0; i < 50; i++ {
		w.Settle()
		all := true
		for _, p := range w.Peers {
			if !p.Returned {
				all = false
			}
		}
		if all {
			break
		}
		w.sleep(10 * time.Second)
	}
	for _, p := range w.Peers {
		if !p.Returned {
			w.C.Fail("node-run-returns", "run-not-returned-after-interrupt", "node%d Run had not returned 500 simulated seconds after shutdown was signalled", p.ID)
		}
	}
	if w.TxM != nil {
		w.TxM.Stop(w.Ctx)
		if w.FD != nil {
			w.FD.Settle(0, 1<<30)
		}
		<-w.txDone
	}
	w.C.AddSimTime(0)
}

// GetDataItems decodes the inventory vectors of a getdata payload.
func GetDataItems(payload []byte) (typ []uint32, hashes []bitcoin.Hash32) {
	r := bytes.NewReader(payload)
	n, err := wire.ReadVarInt(r, 0)
	if err != nil {
		return
	}
	for i := uint64(0); i < n; i++ {
		var t uint32
		var h bitcoin.Hash32
		if binary.Read(r, binary.LittleEndian, &t) != nil {
			return
		}
		if _, err := r.Read(h[:]); err != nil {
			return
		}
		typ = append(typ, t)
		hashes = append(hashes, h)
	}
	return
}
