package headersworld

import (
	"context"
	"encoding/json"
	"fmt"
	"testing"
	"testing/synctest"

	"github.com/tokenized/bitcoin_reader/headers"
	"github.com/tokenized/logger"
	"github.com/tokenized/pkg/bitcoin"
	"github.com/tokenized/pkg/wire"

	"verif/sim/core"
	"verif/sim/model"
	"verif/sim/simstore"
)

// backlogScenario (C07): a subscriber that does not read while more headers arrive than its channel
// holds (the capacity is the repository's, learnt here by observation: the submitter blocks when it is
// full). The submitter runs on its own goroutine inside a synctest bubble; whenever it is blocked in
// ProcessHeader (or has finished) the driver drains what has been delivered. Whatever the backlog, the
// subscriber must in the end have received every header of the chain, once, in order.
// Configuration: {"k":"config","d":3,"a":<number of headers>}.
func backlogScenario(c *core.Ctx, n int) {
	if core.WorkerT == nil {
		panic("backlog scenario outside a worker process")
	}
	synctest.Test(core.WorkerT, func(*testing.T) {
		ctx := logger.ContextWithNoLogger(context.Background())
		repo := headers.NewRepository(&headers.Config{Network: bitcoin.MainNet, MaxBranchDepth: 8}, simstore.New())
		repo.DisableDifficulty()
		if err := repo.Load(ctx); err != nil {
			panic(err)
		}
		g, err := repo.Header(ctx, 0)
		if err != nil {
			panic(err)
		}
		ch := repo.GetNewHeadersAvailableChannel()
		c.Event("backlog scenario: one subscriber that does not read, %d headers", n)
		c.Nontrivial()
		chain := make([]*wire.BlockHeader, 0, n)
		prev := g
		for i := 0; i < n; i++ {
			h := &wire.BlockHeader{Version: 1, PrevBlock: model.HeaderHash(prev), MerkleRoot: model.DoubleSHA([]byte(fmt.Sprintf("backlog-%d", i))),
				Timestamp: prev.Timestamp + 600, Bits: 0x1d00ffff, Nonce: uint32(i)}
			chain = append(chain, h)
			prev = h
		}
		done := make(chan error, 1)
		go func() {
			for _, h := range chain {
				if err := repo.ProcessHeader(ctx, h); err != nil {
					done <- err
					return
				}
			}
			done <- nil
		}()
		var got []model.Hash
		blockedAt := -1
		finished := false
		for rounds := 0; rounds < 4*n+10; rounds++ {
			synctest.Wait() // the submitter is blocked in ProcessHeader (subscriber channel full) or has finished
			if !finished {
				select {
				case err := <-done:
					finished = true
					if err != nil {
						c.Fail("c07.backlog-submission", "error", "ProcessHeader failed while a subscriber had a backlog: %v", err)
					}
				default:
					if blockedAt < 0 {
						blockedAt = len(got) + len(ch)
						c.Event("the submitter waits for the subscriber with %d headers queued", len(ch))
						c.Probe("submitter-blocked-on-full-subscriber-channel")
					}
				}
			}
			drained := 0
			for {
				select {
				case h := <-ch:
					got = append(got, model.HeaderHash(h))
					drained++
					continue
				default:
				}
				break
			}
			if finished && drained == 0 {
				break
			}
		}
		if !finished {
			c.Fail("c07.backlog-submission", "never-finished", "the submitter never finished although the subscriber kept reading")
			return
		}
		if len(got) != len(chain) {
			c.Fail("c07.announcement", fmt.Sprintf("backlog got<want"), "a subscriber with a backlog received %d of the %d headers of the chain (the repository reports height %d)", len(got), len(chain), repo.Height())
			return
		}
		for i := range chain {
			if got[i] != model.HeaderHash(chain[i]) {
				c.Fail("c07.announcement", "backlog out-of-order", "header %d delivered to the subscriber with a backlog is not the header at that height", i+1)
				return
			}
		}
		c.Probe("backlog-delivered-completely")
	})
}

// backlogConfig reports whether a script's configuration element selects the backlog scenario.
func backlogConfig(c *core.Ctx) (int, bool) {
	if c.Script == nil || len(c.Script) == 0 {
		return 0, false
	}
	var cfg Op
	if json.Unmarshal(c.Script[0], &cfg) != nil || cfg.K != "config" || cfg.D != 3 {
		return 0, false
	}
	return cfg.A, true
}
