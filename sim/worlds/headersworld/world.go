// Package headersworld is Engine S for the header repository: a sequential discrete-event simulation
// of one real headers.Repository over a simulated disk, fed by simulated miners/peers through a faulty
// header network, with an operator issuing Clean, Save, restart, mark-invalid and queries. Because
// every public call of the repository holds one mutex from entry to exit, an interleaving of
// concurrent callers is an order of calls, which the tape chooses.
//
// A run is a sequence of operations (Op) with explicit arguments. In search mode a generator draws each
// next operation from the tape looking at the current state; in script mode the operations come from a
// recorded list. Execution never draws from the tape, so a recorded script replays exactly and stays
// valid when the generator changes; the minimiser deletes operations from it.
package headersworld

import (
	"context"
	"encoding/json"
	"fmt"
	"math/big"
	"os"
	"regexp"
	"strings"

	"github.com/pkg/errors"
	"github.com/tokenized/bitcoin_reader/headers"
	"github.com/tokenized/logger"
	"github.com/tokenized/pkg/bitcoin"
	"github.com/tokenized/pkg/wire"

	"verif/sim/core"
	"verif/sim/model"
	"verif/sim/simstore"
)

// Op is one operation of a run.
type Op struct {
	K string `json:"k"`
	A int    `json:"a,omitempty"`
	B int    `json:"b,omitempty"`
	C int    `json:"c,omitempty"`
	D int    `json:"d,omitempty"`
	E int    `json:"e,omitempty"`
	N string `json:"n,omitempty"`
}

// Opts selects the workload mix and the oracle groups for one property.
type Opts struct {
	Groups map[string]bool // oracle groups: c01 c07 c08 c09 c10 c11 c12 c17 c18 c19

	MinSteps, MaxSteps int

	// operation weights
	WMint, WDeliver, WClean, WSave, WReload, WMark, WUnmark, WSubscribe, WAdversarial, WQuery, WProof, WLocator, WCrash int
	// WSplit: weight of configuring a chain split at the next height (verif hook SetSplitsForSimulation),
	// so that locators and submissions are exercised below, between and above split heights.
	WSplit int

	// Allow small prune depths through the verif hook.
	SmallPrune bool
	// Txids gives every header a real merkle root over several generated txids.
	Txids bool
	// Twin keeps the pre-restart repository alive after a reload and feeds both the same submissions.
	Twin bool
	// Backlog: one run in Backlog is the subscriber backlog scenario of C07 (0 = never).
	Backlog int
	// LargeEvery: one run in LargeEvery uses long chain mode (0 = never).
	LargeEvery int
	// ConfigInvalid puts one hash into Config.InvalidHeaderHashes (C17: config supplied markings).
	ConfigInvalid bool
}

type delivery struct {
	n    *model.Node
	peer int
}

type subscriber struct {
	ch    <-chan *wire.BlockHeader
	chain []*model.Node
	id    int
}

type World struct {
	c    *core.Ctx
	o    Opts
	ctx  context.Context
	cfg  *headers.Config
	st   *simstore.Store
	repo *headers.Repository
	m    *model.Tree

	bySerial    map[int]*model.Node
	tip         *model.Node // model node of the tip the repository reports
	maxDepth    int
	pruneDepth  int // 0 = real (10000)
	marked      map[model.Hash]bool
	subs        []*subscriber
	pruneLine   int
	lastSaveTip *model.Node
	reloads     int

	large                bool // long chain mode: chains cross 1000-header file boundaries; checks run per operation
	straddled            bool
	deepReorgSinceSave   bool            // a reorganisation deeper than the prune depth since the last completed Save
	markShrankSinceSave  bool            // a marking removed best-chain headers since the last completed Save
	imageAfterMarkShrank bool            // the crash images being checked belong to an operation that followed such a marking
	imageAfterDeepReorg  bool            // the crash images being checked belong to an operation that followed such a reorganisation
	ancestrySuffix       string          // appended to the classes of checkAncestry mismatches (crash images after such a reorganisation)
	splits               []headers.Split // chain splits configured at low heights (hook)
	splitAfter           map[model.Hash]int
	splitBefore          map[model.Hash]bool
	boundary             bool // long chain mode around the automatic clean at height 10000 with the real prune depth
	quiet                bool // inside a bulk operation: per-event oracle groups are deferred to its end
	markBeyondPrune      bool
	trimParents          map[*model.Node]bool

	twin     *headers.Repository
	twinLeft int

	// generator state (unused in script mode)
	pendingS []pendingSerial
	peers    int
	skew     []int
	rReorder int
	rDup     int
	rDrop    int
	steps    int
	nextSer  int
}

func (w *World) on(g string) bool { return w.o.Groups[g] }

var bitsMenu = []uint32{0x1d00ffff, 0x1c7fffff, 0x1c3fffff, 0x1d00fffe}

// genBits draws a bits menu index: mostly equal work, sometimes heavier.
func (w *World) genBits() int {
	return w.c.T.Weighted([]int{6, 2, 1, 1})
}

// Start builds the world. In search mode the per-run configuration is drawn from the tape (swarm
// testing); in script mode it is the first element of the script.
func Start(c *core.Ctx, o Opts) *World {
	w := &World{c: c, o: o, ctx: logger.ContextWithNoLogger(context.Background()), marked: map[model.Hash]bool{},
		bySerial: map[int]*model.Node{}, trimParents: map[*model.Node]bool{}}
	var cfg Op
	if c.Script != nil {
		if len(c.Script) == 0 || json.Unmarshal(c.Script[0], &cfg) != nil || cfg.K != "config" {
			panic("script without configuration")
		}
	} else {
		t := c.T
		depths := []int{2, 0, 1, 3, 4, 6, 8, 144}
		cfg = Op{K: "config", A: depths[t.Draw(len(depths))]}
		if o.SmallPrune && t.Chance(3, 4) {
			cfg.B = cfg.A + 2 + t.Draw(10)
		}
		// VERIF_NO_LARGE=1 (debugging aid, never set by a registered command): no long chain runs
		if o.SmallPrune && o.LargeEvery > 0 && t.Chance(1, o.LargeEvery) && os.Getenv("VERIF_NO_LARGE") != "1" {
			// long chain mode: 900-2700 headers up front, prune depth in the hundreds, so that pruning,
			// saving and loading cross the 1000-header file boundaries
			cfg.D = 1
			cfg.B = 150 + t.Draw(1200)
			if cfg.A > 100 {
				cfg.A = 8
			}
			if t.Chance(1, 4) {
				// boundary mode: the real prune depth, and a chain grown to just below the height of
				// the automatic clean, so that forks, reorganisations, Clean, Save and Load happen
				// around the 10000 line itself
				cfg.D = 2
				cfg.B = realPruneDepth
			}
		}
		w.peers = 1 + t.Draw(4)
		w.skew = make([]int, w.peers)
		for i := range w.skew {
			w.skew[i] = t.Draw(5) * 300
		}
		rates := []int{0, 50, 150, 400}
		w.rReorder = rates[t.Draw(len(rates))]
		w.rDup = rates[t.Draw(len(rates))] / 2
		w.rDrop = rates[t.Draw(len(rates))] / 3
		w.steps = t.Range(o.MinSteps, o.MaxSteps)
		if o.ConfigInvalid && t.Chance(1, 2) {
			cfg.E = 1 // this run has no configuration supplied invalid hash: the invalid list can become empty
		}
		cfg.N = fmt.Sprintf("peers=%d reorder=%d dup=%d drop=%d steps=%d", w.peers, w.rReorder, w.rDup, w.rDrop, w.steps)
	}
	c.Record(cfg)
	w.maxDepth = cfg.A
	w.pruneDepth = cfg.B
	w.large = cfg.D >= 1
	w.boundary = cfg.D == 2
	w.cfg = &headers.Config{Network: bitcoin.MainNet, MaxBranchDepth: w.maxDepth}
	if o.ConfigInvalid && cfg.E != 1 {
		w.cfg.InvalidHeaderHashes = []bitcoin.Hash32{configInvalidHash}
	}
	w.st = simstore.New()
	if err := w.openFresh(); err != nil {
		panic(fmt.Sprintf("initial load failed: %s", err))
	}
	w.nextSer = 1
	c.Event("config maxBranchDepth=%d pruneDepth=%d %s", w.maxDepth, w.pruneDepth, cfg.N)
	return w
}

var configInvalidHash = model.DoubleSHA([]byte("config supplied invalid hash"))

// openFresh creates a repository on the (possibly non-empty) simulated disk and loads it, which is
// what the program does at start-up.
func (w *World) openFresh() error {
	w.repo = headers.NewRepository(w.cfg, w.st)
	w.repo.DisableDifficulty()
	w.applySplits(w.repo)
	var err error
	if w.pruneDepth > 0 {
		err = w.repo.LoadWithPruneDepth(w.ctx, w.pruneDepth)
	} else {
		err = w.repo.Load(w.ctx)
	}
	if err != nil {
		return err
	}
	if w.m == nil {
		g, gerr := w.repo.Header(w.ctx, 0)
		if gerr != nil {
			return gerr
		}
		w.m = model.NewTree(g)
		w.tip = w.m.Genesis
		w.bySerial[0] = w.m.Genesis
	}
	return nil
}

func (w *World) Repo() *headers.Repository { return w.repo }
func (w *World) Tip() *model.Node          { return w.tip }

// ---------------------------------------------------------------------------------------------
// verdicts

func Verdict(err error) string {
	if err == nil {
		return "ok"
	}
	switch errors.Cause(err) {
	case headers.ErrUnknownHeader:
		return "unknown-parent"
	case headers.ErrWrongChain:
		return "wrong-chain"
	case headers.ErrHeaderMarkedInvalid:
		return "marked-invalid"
	case headers.ErrBeyondMaxBranchDepth:
		return "beyond-depth"
	case headers.ErrNotEnoughWork:
		return "not-enough-work"
	case headers.ErrInvalidTarget:
		return "invalid-target"
	}
	s := err.Error()
	if len(s) > 60 {
		s = s[:60]
	}
	return "other(" + s + ")"
}

func (w *World) underMarked(n *model.Node) bool {
	for x := n; x != nil; x = x.Parent {
		if w.marked[x.Hash] {
			return true
		}
	}
	return false
}

// heaviest returns the maximal cumulative work over accepted, eligible headers and one node that has it.
func (w *World) heaviest() (*big.Int, *model.Node) {
	var best *model.Node
	for _, n := range w.m.All {
		if !n.Accepted || w.underMarked(n) {
			continue
		}
		if best == nil || n.Work.Cmp(best.Work) > 0 {
			best = n
		}
	}
	if best == nil {
		return new(big.Int), nil
	}
	return best.Work, best
}

// hasAcceptedChild: the parent already has an accepted child, so a further child must start a branch.
func hasAcceptedChild(p *model.Node, except *model.Node) bool {
	for _, ch := range p.Children {
		if ch != except && ch.Accepted {
			return true
		}
	}
	return false
}

// applySplits configures the simulated chain splits on a repository (no-op without any).
func (w *World) applySplits(repo *headers.Repository) {
	if len(w.splits) > 0 {
		repo.SetSplitsForSimulation(append(headers.Splits(nil), w.splits...))
	}
}

// expected returns the set of verdicts the reference allows for submitting n now.
func (w *World) expected(n *model.Node) (allowed []string) {
	p := n.Parent
	if p == nil { // genesis resubmitted
		return []string{"ok", "unknown-parent"}
	}
	if h, isSplit := w.splitAfter[n.Hash]; isSplit && !n.Accepted && (h == n.Height || !p.Accepted) {
		return []string{"wrong-chain"} // the first header of another chain at a configured split
	}
	if !p.Accepted {
		return []string{"unknown-parent"}
	}
	relax := p.MemOpt || p.Forget
	if n.Accepted {
		// duplicate
		if relax || n.MemOpt || n.Forget {
			return []string{"ok", "unknown-parent", "wrong-chain", "marked-invalid"}
		}
		return []string{"ok"}
	}
	var v string
	switch {
	case w.marked[n.Hash]:
		v = "marked-invalid"
	case hasAcceptedChild(p, n) && w.tip.Height-p.Height > w.maxDepth:
		v = "beyond-depth"
	default:
		v = "ok"
	}
	out := []string{v}
	if w.trimParents[p] && (v == "ok" || v == "beyond-depth") {
		out = []string{"ok", "beyond-depth"}
	}
	if relax {
		out = append(out, "unknown-parent")
		if p == w.m.Genesis {
			out = append(out, "wrong-chain")
		}
	}
	return out
}

func contains(l []string, s string) bool {
	for _, x := range l {
		if x == s {
			return true
		}
	}
	return false
}

// ---------------------------------------------------------------------------------------------
// minting and submission (execution)

func txidsFor(serial, k int) []model.Hash {
	if k < 1 {
		k = 1
	}
	out := make([]model.Hash, k)
	for i := range out {
		out[i] = model.DoubleSHA([]byte(fmt.Sprintf("tx-%d-%d", serial, i)))
	}
	return out
}

// execMint: A=serial B=parent serial C=bits index D=timestamp delta to parent E=number of txids
func (w *World) execMint(op Op) *model.Node {
	parent := w.bySerial[op.B]
	if parent == nil || w.bySerial[op.A] != nil {
		w.c.Note("skip mint n%d (parent n%d missing or serial taken)", op.A, op.B)
		return nil
	}
	txids := txidsFor(op.A, op.E)
	ts := int64(parent.Header.Timestamp) + int64(op.D)
	if ts < 0 {
		ts = 0
	}
	h := &wire.BlockHeader{
		Version:    1,
		PrevBlock:  parent.Hash,
		MerkleRoot: model.MerkleRoot(txids),
		Timestamp:  uint32(ts),
		Bits:       bitsMenu[op.C%len(bitsMenu)],
		Nonce:      uint32(op.A),
	}
	n := w.m.Mint(parent, h, txids)
	n.Serial = op.A
	w.bySerial[op.A] = n
	if op.A >= w.nextSer {
		w.nextSer = op.A + 1
	}
	w.c.Event("mint n%d on n%d h=%d bits=%08x", n.Serial, parent.Serial, n.Height, h.Bits)
	return n
}

// execMintQuiet mints without logging an event (bulk growth).
func (w *World) execMintQuiet(op Op) *model.Node {
	parent := w.bySerial[op.B]
	if parent == nil || w.bySerial[op.A] != nil {
		return nil
	}
	txids := txidsFor(op.A, op.E)
	h := &wire.BlockHeader{Version: 1, PrevBlock: parent.Hash, MerkleRoot: model.MerkleRoot(txids), Timestamp: parent.Header.Timestamp + uint32(op.D),
		Bits: bitsMenu[op.C%len(bitsMenu)], Nonce: uint32(op.A)}
	n := w.m.Mint(parent, h, txids)
	n.Serial = op.A
	w.bySerial[op.A] = n
	if op.A >= w.nextSer {
		w.nextSer = op.A + 1
	}
	return n
}

// tips returns the leaves of the reference tree (mint order).
func (w *World) tips(acceptedOnly bool) []*model.Node {
	var out []*model.Node
	for _, n := range w.m.All {
		if acceptedOnly && !n.Accepted {
			continue
		}
		leaf := true
		for _, ch := range n.Children {
			if !acceptedOnly || ch.Accepted {
				leaf = false
				break
			}
		}
		if leaf {
			out = append(out, n)
		}
	}
	return out
}

// execSubmit: A=serial B=peer C=flags (1: compare Save bytes before/after a refusal) N=note
func (w *World) execSubmit(op Op) string {
	n := w.bySerial[op.A]
	if n == nil {
		w.c.Note("skip submit n%d (never minted)", op.A)
		return "skip"
	}
	compareSave := op.C&1 != 0 && w.on("c08")
	var digest string
	if compareSave {
		w.endTwin()
		if err := w.repo.Save(w.ctx); err != nil {
			compareSave = false
		} else {
			digest = w.st.Digest()
		}
	}
	wasAccepted := n.Accepted
	v := w.Submit(n, op.B, op.N)
	if compareSave && (v != "ok" || wasAccepted) && !w.c.Stopped() {
		if err := w.repo.Save(w.ctx); err == nil {
			if d := w.st.Digest(); d != digest {
				w.c.Fail("c08.refusal-changes-nothing", "save-bytes-differ:"+classOnly(v), "bytes written by Save differ after a %q answer for n%d", v, n.Serial)
			}
			w.c.Probe("save-compared-after-refusal")
		}
	}
	return v
}

// Submit delivers header n to the repository and checks the verdict and the resulting state.
func (w *World) Submit(n *model.Node, peer int, note string) string {
	allowed := w.expected(n)
	oldTip := w.tip
	var before string
	if w.on("c08") && !w.quiet {
		before = w.snapshot(false)
	}
	if n.Parent != nil && !n.Parent.Accepted {
		w.c.Probe("orphan-delivered")
	} else if n.Accepted {
		w.c.Probe("duplicate-delivered")
	}
	err := w.repo.ProcessHeader(w.ctx, n.Header)
	v := Verdict(err)
	if !w.quiet || v != "ok" {
		w.c.Event("submit n%d h=%d parent=n%d peer=%d %s-> %s", n.Serial, n.Height, serialOf(n.Parent), peer, note, v)
	}

	wasAccepted := n.Accepted
	if v == "ok" && !n.Accepted && n.Parent != nil && n.Parent.Accepted {
		n.Accepted = true
		n.EverAccepted = true
	}
	insertedThenError := false
	if err != nil && !n.Accepted && n.Parent != nil {
		// A refusal must not have inserted the header. If it did, the header now counts as accepted
		// (so that "an error never leaves a heavier accepted chain unreported" is checkable).
		if w.repo.HashHeight(n.Hash) != -1 {
			n.Accepted = true
			n.EverAccepted = true
			insertedThenError = true
			w.c.Probe("error-after-insert")
			if w.on("c08") {
				w.c.Fail("c08.refusal-changes-nothing", "inserted-then-error:"+classOnly(v),
					"ProcessHeader(n%d) returned %q but the header is now known (height %d)", n.Serial, err, w.repo.HashHeight(n.Hash))
			}
		}
	}
	if v != "ok" {
		w.c.Probe("refusal:" + classOnly(v))
		if w.on("c08") {
			w.c.Nontrivial()
		}
	}
	if w.on("c08") {
		if !contains(allowed, v) {
			w.c.Fail("c08.verdict", fmt.Sprintf("want %s got %s", strings.Join(allowed, "/"), classOnly(v)),
				"submission of n%d (height %d, parent n%d accepted=%v memopt=%v, duplicate=%v, marked=%v, parent-has-child=%v, best height %d, max depth %d): got %q, reference allows %v",
				n.Serial, n.Height, serialOf(n.Parent), n.Parent != nil && n.Parent.Accepted, n.Parent != nil && n.Parent.MemOpt,
				wasAccepted, w.marked[n.Hash], n.Parent != nil && hasAcceptedChild(n.Parent, n), oldTip.Height, w.maxDepth, v, allowed)
		}
		if (v != "ok" || wasAccepted) && !insertedThenError && !w.quiet {
			after := w.snapshot(false)
			if after != before {
				w.c.Fail("c08.refusal-changes-nothing", "observable-changed:"+classOnly(v),
					"observables differ after a %q answer for n%d: %s", v, n.Serial, firstDiff(before, after))
			}
		}
	}
	if w.twin != nil {
		w.twinSubmit(n, v)
	}
	w.afterMutation(oldTip, n, v)
	return v
}

func classOnly(v string) string {
	if strings.HasPrefix(v, "other(") && len(v) > 50 {
		return v[:50] + ")"
	}
	return v
}

func serialOf(n *model.Node) int {
	if n == nil {
		return -1
	}
	return n.Serial
}

// afterMutation re-synchronises the model tip with the tip the repository reports and runs the
// oracle groups that are evaluated after every event.
func (w *World) afterMutation(oldTip *model.Node, submitted *model.Node, verdict string) {
	last := w.repo.LastHash()
	tn := w.m.ByHash[last]
	if tn == nil || !tn.Accepted {
		w.c.Fail("tip-is-accepted-header", "unknown-tip", "reported tip %s is not a header the repository accepted", last)
		w.c.Stop()
		return
	}
	w.tip = tn
	if oldTip != tn {
		if model.IsAncestorOrEqual(oldTip, tn) {
			if tn.Height-oldTip.Height > 1 {
				w.c.Probe("tip-advanced-many")
			}
		} else {
			w.c.Probe("reorg")
			fp := model.ForkPoint(oldTip, tn)
			if fp != nil && w.pruneDepth > 0 && oldTip.Height-fp.Height > w.depth() {
				// the best chain was replaced from a fork point deeper than the prune depth (the small
				// depths of the hook make that reachable; with the real constants it is a reorganisation
				// of more than 10000 blocks)
				w.deepReorgSinceSave = true
				w.c.Probe("reorg-deeper-than-prune-depth")
			}
			if fp != nil && tn.Height/realPruneDepth > fp.Height/realPruneDepth && tn.Height%realPruneDepth != 0 && oldTip.Height/realPruneDepth == fp.Height/realPruneDepth {
				// the best chain passed the height of an automatic clean without ever having its tip on it
				w.c.Probe("reorg-skipped-automatic-clean-height")
			}
			if fp != nil && oldTip.Height-fp.Height >= 2 {
				w.c.Probe("reorg-depth>=2")
			}
			if w.on("c01") || w.on("c07") || w.on("c09") || w.on("c10") || w.on("c11") {
				w.c.Nontrivial()
			}
		}
	}
	if w.on("c07") {
		w.checkStream(oldTip, tn, submitted)
	}
	if w.quiet {
		return
	}
	if w.large && submitted != nil && w.c.Seq()%6 != 0 {
		return // long chain mode: whole-state groups run on every 6th submission and on every maintenance operation
	}
	w.groupChecks(verdict)
}

// sampled: in long chain mode the per-header observations cover every side-branch header and, on the
// best chain, the headers near the tip, near the prune line, near the 1000-header file boundaries, the
// first three, and every 97th.
func (w *World) sampled(n *model.Node) bool {
	if !w.large {
		return true
	}
	if !w.onBest(n) || n.Height < 3 || w.tip.Height-n.Height < 20 || n.Height%97 == 0 {
		return true
	}
	m := n.Height % 1000
	if m <= 2 || m >= 997 {
		return true
	}
	d := n.Height - w.pruneLine
	return d >= -4 && d <= 4
}

func (w *World) sampledHeight(h, tipHeight int) bool {
	if !w.large {
		return true
	}
	if h < 3 || tipHeight-h < 20 || h%97 == 0 {
		return true
	}
	m := h % 1000
	if m <= 2 || m >= 997 {
		return true
	}
	d := h - w.pruneLine
	return d >= -4 && d <= 4
}

// groupChecks runs the oracle groups that look at the whole state.
func (w *World) groupChecks(verdict string) {
	if w.on("c01") {
		w.checkTip(verdict)
	}
	if w.on("c09") {
		w.checkLookups()
	}
	if w.on("c17") {
		w.checkMarked()
		w.checkTip(verdict)
	}
}

// ---------------------------------------------------------------------------------------------
// C01: tip and ancestry

func (w *World) checkTip(verdict string) {
	tn := w.tip
	maxWork, heavy := w.heaviest()
	rep := w.repo.AccumulatedWork()
	if rep.Cmp(tn.Work) != 0 {
		w.c.Fail("c01.tip-work-consistent", "work-mismatch", "reported accumulated work %s differs from the cumulative work %s of the reported tip n%d", rep.Text(16), tn.Work.Text(16), tn.Serial)
	}
	if tn.Work.Cmp(maxWork) < 0 {
		rel := "cousin"
		if model.IsAncestorOrEqual(tn, heavy) {
			rel = "descendant"
		}
		cls := "heavier-" + rel + "-unreported"
		if verdict != "ok" && verdict != "mark" {
			cls += "-after-error"
		}
		w.c.Fail("c01.tip-max-work", cls, "reported tip n%d (height %d, work %s) but accepted header n%d (height %d) has more work %s; last verdict %q",
			tn.Serial, tn.Height, tn.Work.Text(16), heavy.Serial, heavy.Height, heavy.Work.Text(16), verdict)
	}
	if h := w.repo.Height(); h != tn.Height {
		w.c.Fail("c01.tip-height", "height-mismatch", "Height()=%d but the reported tip n%d is at height %d", h, tn.Serial, tn.Height)
	}
	w.checkAncestry("c01.ancestry", w.repo, tn)
}

// checkAncestry verifies Hash(h)/Header(h) for 0..tip against the tip's ancestry in the model.
func (w *World) checkAncestry(inv string, repo *headers.Repository, tn *model.Node) bool {
	x := tn
	for h := tn.Height; h >= 0; h-- {
		if x == nil {
			break
		}
		if w.sampledHeight(h, tn.Height) {
			hash, err := repo.Hash(w.ctx, h)
			if err != nil {
				w.c.Fail(inv, "hash-error"+w.ancestrySuffix, "Hash(%d) failed: %s (tip height %d)", h, err, tn.Height)
				return false
			}
			if !hash.Equal(&x.Hash) {
				w.c.Fail(inv, "wrong-hash-at-height"+w.ancestrySuffix, "Hash(%d)=%s but the ancestor of the reported tip at that height is n%d %s", h, hash, x.Serial, x.Hash)
				return false
			}
			hdr, err := repo.Header(w.ctx, h)
			if err != nil {
				w.c.Fail(inv, "header-error", "Header(%d) failed: %s (tip height %d)", h, err, tn.Height)
				return false
			}
			hh := model.HeaderHash(hdr)
			if hh != x.Hash {
				w.c.Fail(inv, "wrong-header-at-height"+w.ancestrySuffix, "Header(%d) hashes to %s, want n%d %s", h, hh, x.Serial, x.Hash)
				return false
			}
			if x.Parent != nil && hdr.PrevBlock != x.Parent.Hash {
				w.c.Fail(inv, "unlinked"+w.ancestrySuffix, "Header(%d).PrevBlock does not equal Hash(%d)", h, h-1)
				return false
			}
		}
		x = x.Parent
	}
	if _, err := repo.Hash(w.ctx, tn.Height+1); err == nil {
		w.c.Fail(inv, "hash-beyond-tip", "Hash(tip+1) succeeded")
		return false
	}
	return true
}

// ---------------------------------------------------------------------------------------------
// snapshots (used for before/after equality)

func errClass(err error) string {
	if err == nil {
		return "nil"
	}
	c := errors.Cause(err)
	switch c {
	case headers.ErrUnknownHeader:
		return "unknown"
	case headers.ErrHeightBeyondTip:
		return "beyond-tip"
	case headers.ErrHeaderNotAvailable:
		return "not-available"
	}
	s := reHex.ReplaceAllString(err.Error(), "#")
	if len(s) > 40 {
		s = s[:40]
	}
	return "err(" + s + ")"
}

var reHex = regexp.MustCompile(`[0-9a-f]{16,}`)

func phOptional(n *model.Node) bool {
	return n.MemOpt || (n.Parent != nil && n.Parent.MemOpt)
}

// snapshot renders every observable of the repository canonically. skipMem leaves out what may
// legitimately change when best-chain history is dropped from memory (PreviousHash of such headers).
func (w *World) snapshot(skipMem bool) string {
	return w.snapshotOf(w.repo, skipMem)
}

func (w *World) snapshotOf(repo *headers.Repository, skipMem bool) string {
	var sb strings.Builder
	last := repo.LastHash()
	fmt.Fprintf(&sb, "tip=%s h=%d w=%s t=%d\n", last, repo.Height(), repo.AccumulatedWork().Text(16), repo.LastTime())
	H := repo.Height()
	for h := 0; h <= H+1; h++ {
		if !w.sampledHeight(h, H) && h != H+1 {
			continue
		}
		hash, err := repo.Hash(w.ctx, h)
		hdr, err2 := repo.Header(w.ctx, h)
		hs, ds := "-", "-"
		if hash != nil {
			hs = hash.String()[:16]
		}
		if hdr != nil {
			x := model.HeaderHash(hdr)
			ds = x.String()[:16]
		}
		fmt.Fprintf(&sb, "H%d=%s/%s/%s/%s\n", h, hs, errClass(err), ds, errClass(err2))
	}
	for _, n := range w.m.All {
		if !w.sampled(n) {
			continue
		}
		hh := repo.HashHeight(n.Hash)
		ch, cl, cerr := repo.CheckHeader(w.ctx, n.Hash)
		gh, gheight, gl, gerr := repo.GetHeader(w.ctx, n.Hash)
		gs := "-"
		if gh != nil {
			x := model.HeaderHash(gh)
			gs = x.String()[:12]
		}
		fmt.Fprintf(&sb, "n%d hh=%d ch=%d/%v/%s gh=%s/%d/%v/%s", n.Serial, hh, ch, cl, errClass(cerr), gs, gheight, gl, errClass(gerr))
		if !(skipMem && phOptional(n)) {
			ph, phh := repo.PreviousHash(n.Hash)
			ps := "-"
			if ph != nil {
				ps = ph.String()[:12]
			}
			fmt.Fprintf(&sb, " ph=%s/%d", ps, phh)
		}
		sb.WriteByte('\n')
	}
	if repo == w.repo {
		for _, s := range w.subs {
			fmt.Fprintf(&sb, "sub%d queued=%d\n", s.id, len(s.ch))
		}
	}
	return sb.String()
}

func firstDiff(a, b string) string {
	la, lb := strings.Split(a, "\n"), strings.Split(b, "\n")
	for i := 0; i < len(la) && i < len(lb); i++ {
		if la[i] != lb[i] {
			return fmt.Sprintf("before %q after %q", la[i], lb[i])
		}
	}
	return fmt.Sprintf("length %d vs %d lines", len(la), len(lb))
}

// diffClass names the kind of observable that changed first.
func diffClass(a, b string) string {
	la, lb := strings.Split(a, "\n"), strings.Split(b, "\n")
	for i := 0; i < len(la) && i < len(lb); i++ {
		if la[i] != lb[i] {
			l := la[i]
			switch {
			case strings.HasPrefix(l, "tip="):
				return "tip"
			case strings.HasPrefix(l, "H"):
				return "hash-or-header-by-height"
			case strings.HasPrefix(l, "n"):
				return "lookup-by-hash"
			case strings.HasPrefix(l, "sub"):
				return "stream"
			}
			return "other"
		}
	}
	return "length"
}

// ---------------------------------------------------------------------------------------------
// C09: lookups

func (w *World) onBest(n *model.Node) bool { return model.IsAncestorOrEqual(n, w.tip) }

func (w *World) checkLookups() {
	for _, n := range w.m.All {
		if !w.sampled(n) {
			continue
		}
		if !n.Accepted {
			// never accepted (or legitimately forgotten): must be unknown
			if hh := w.repo.HashHeight(n.Hash); hh != -1 && !n.Forget {
				w.c.Fail("c09.unknown-is-unknown", "never-accepted-known", "HashHeight(n%d)=%d but the header was never accepted", n.Serial, hh)
			}
			continue
		}
		hh := w.repo.HashHeight(n.Hash)
		if hh == -1 && n.Forget {
			continue
		}
		onBest := w.onBest(n)
		where := "side"
		if onBest {
			where = "best"
		}
		if n.MemOpt {
			where += "-pruned"
		}
		if n.Forget {
			where += "-forgettable"
		}
		if hh != n.Height {
			w.c.Fail("c09.hash-height", fmt.Sprintf("%s %+d", where, clamp(hh-n.Height)), "HashHeight(n%d)=%d, true height %d (%s chain)", n.Serial, hh, n.Height, where)
		}
		ch, cl, cerr := w.repo.CheckHeader(w.ctx, n.Hash)
		if cerr != nil {
			w.c.Fail("c09.check-header", where+" error", "CheckHeader(n%d) failed: %s", n.Serial, cerr)
		} else {
			if ch != n.Height {
				w.c.Fail("c09.check-header-height", fmt.Sprintf("%s %+d", where, clamp(ch-n.Height)), "CheckHeader(n%d) height %d, true height %d", n.Serial, ch, n.Height)
			}
			if cl != onBest {
				w.c.Fail("c09.in-best-chain-flag", fmt.Sprintf("%s flag=%v", where, cl), "CheckHeader(n%d) reports in-most-work-chain=%v but the header (height %d) %s an ancestor-or-equal of the reported tip n%d (height %d)",
					n.Serial, cl, n.Height, map[bool]string{true: "is", false: "is not"}[onBest], w.tip.Serial, w.tip.Height)
			}
		}
		gh, gheight, gl, gerr := w.repo.GetHeader(w.ctx, n.Hash)
		if gerr != nil {
			if !n.Forget {
				w.c.Fail("c09.get-header", where+" "+errClass(gerr), "GetHeader(n%d) failed: %s", n.Serial, gerr)
			}
		} else {
			if x := model.HeaderHash(gh); x != n.Hash {
				w.c.Fail("c09.get-header-hash", where, "GetHeader(n%d) returned a header hashing to %s (height %d claimed)", n.Serial, x, gheight)
			}
			if gheight != n.Height {
				w.c.Fail("c09.get-header-height", fmt.Sprintf("%s %+d", where, clamp(gheight-n.Height)), "GetHeader(n%d) height %d, true height %d", n.Serial, gheight, n.Height)
			}
			if gl != onBest {
				w.c.Fail("c09.in-best-chain-flag", fmt.Sprintf("%s get flag=%v", where, gl), "GetHeader(n%d) reports in-most-work-chain=%v, want %v", n.Serial, gl, onBest)
			}
		}
		ph, phh := w.repo.PreviousHash(n.Hash)
		if ph == nil {
			// allowed only where the header or its predecessor may be out of memory, and for genesis
			if n.Parent != nil && !phOptional(n) && !n.Forget {
				w.c.Fail("c09.previous-hash", where+" missing", "PreviousHash(n%d) unknown although the header (height %d) is retrievable", n.Serial, n.Height)
			}
		} else if n.Parent == nil {
			w.c.Fail("c09.previous-hash", "genesis-has-previous", "PreviousHash(genesis) returned %s", ph)
		} else if *ph != n.Parent.Hash || phh != n.Height-1 {
			w.c.Fail("c09.previous-hash", where+" wrong", "PreviousHash(n%d)=(%s,%d), want (n%d %s,%d)", n.Serial, ph, phh, n.Parent.Serial, n.Parent.Hash, n.Height-1)
		}
	}
	// unknown hashes
	var u model.Hash
	u[0], u[5] = 0xde, byte(w.c.Seq())
	if hh := w.repo.HashHeight(u); hh != -1 {
		w.c.Fail("c09.unknown-is-unknown", "random-known", "HashHeight(random)=%d", hh)
	}
	if _, _, err := w.repo.CheckHeader(w.ctx, u); errors.Cause(err) != headers.ErrUnknownHeader {
		w.c.Fail("c09.unknown-is-unknown", "random-check", "CheckHeader(random) -> %v", err)
	}
}

func clamp(d int) int {
	if d > 3 {
		return 3
	}
	if d < -3 {
		return -3
	}
	return d
}

// execRanges compares a GetHeaders range with the model: A=start B=count
func (w *World) execRanges(op Op) {
	H := w.tip.Height
	start, count := op.A, op.B
	hs, err := w.repo.GetHeaders(w.ctx, start, count)
	w.c.Event("getheaders %d+%d -> %d %s", start, count, len(hs), errClass(err))
	if err != nil {
		w.c.Fail("c09.get-headers", "error", "GetHeaders(%d,%d) failed: %s", start, count, err)
		return
	}
	want := count
	if start+count-1 > H {
		want = H - start + 1
	}
	if want < 0 {
		want = 0
	}
	if len(hs) != want {
		w.c.Fail("c09.get-headers", "count", "GetHeaders(%d,%d) returned %d headers, want %d (tip height %d)", start, count, len(hs), want, H)
		return
	}
	for i, h := range hs {
		x := model.AncestorAt(w.tip, start+i)
		if x == nil || model.HeaderHash(h) != x.Hash {
			w.c.Fail("c09.get-headers", "wrong-header", "GetHeaders(%d,%d)[%d] is not the best-chain header at height %d", start, count, i, start+i)
			return
		}
	}
}

// ---------------------------------------------------------------------------------------------
// C07: the new header stream

func (w *World) execSubscribe() {
	if len(w.subs) >= 3 {
		return
	}
	s := &subscriber{ch: w.repo.GetNewHeadersAvailableChannel(), id: len(w.subs)}
	for x := w.tip; x != nil; x = x.Parent {
		s.chain = append(s.chain, x)
	}
	for i, j := 0, len(s.chain)-1; i < j; i, j = i+1, j-1 {
		s.chain[i], s.chain[j] = s.chain[j], s.chain[i]
	}
	w.subs = append(w.subs, s)
	w.c.Event("subscribe sub%d at tip n%d", s.id, w.tip.Serial)
	w.c.Probe("subscriber-registered")
}

func (w *World) checkStream(oldTip, newTip, submitted *model.Node) {
	// expected announcement: headers of the new best chain above the fork point, lowest first
	var want []*model.Node
	if oldTip != newTip {
		fp := model.ForkPoint(oldTip, newTip)
		for x := newTip; x != nil && x != fp; x = x.Parent {
			want = append([]*model.Node{x}, want...)
		}
	}
	for _, s := range w.subs {
		var got []*model.Node
		for {
			var h *wire.BlockHeader
			select {
			case h = <-s.ch:
			default:
			}
			if h == nil {
				break
			}
			n := w.m.ByHash[model.HeaderHash(h)]
			if n == nil {
				w.c.Fail("c07.announced-known", "unknown-header", "sub%d received a header that was never minted", s.id)
				continue
			}
			got = append(got, n)
			at := -1
			for i := len(s.chain) - 1; i >= 0; i-- {
				if n.Parent != nil && s.chain[i] == n.Parent {
					at = i
					break
				}
			}
			if at == -1 {
				w.c.Fail("c07.stream-attaches", "parent-not-in-subscriber-chain", "sub%d received n%d (height %d) whose previous block n%d is not in the chain reconstructed so far (top n%d)",
					s.id, n.Serial, n.Height, serialOf(n.Parent), s.chain[len(s.chain)-1].Serial)
				continue
			}
			s.chain = append(s.chain[:at+1], n)
		}
		if len(got) > 1 {
			w.c.Probe("stream-multi-header-announcement")
		}
		if !sameNodes(got, want) {
			kind := "extension"
			if oldTip == newTip {
				kind = "no-tip-change"
			} else if !model.IsAncestorOrEqual(oldTip, newTip) {
				kind = "reorg"
			}
			w.c.Fail("c07.announcement", fmt.Sprintf("%s got=%d want=%d", kind, capN(len(got)), capN(len(want))),
				"after submitting n%d (tip n%d -> n%d) sub%d received %v, want %v", serialOf(submitted), oldTip.Serial, newTip.Serial, s.id, serials(got), serials(want))
		}
		top := s.chain[len(s.chain)-1]
		if top != newTip {
			w.c.Fail("c07.reconstruction", "subscriber-tip-differs", "sub%d reconstructs tip n%d (height %d) but the repository reports n%d (height %d)", s.id, top.Serial, top.Height, newTip.Serial, newTip.Height)
			// resynchronise so that later failures are independent observations
			s.chain = s.chain[:0]
			for x := newTip; x != nil; x = x.Parent {
				s.chain = append([]*model.Node{x}, s.chain...)
			}
		}
	}
}

func capN(n int) int {
	if n > 3 {
		return 3
	}
	return n
}

func sameNodes(a, b []*model.Node) bool {
	if len(a) != len(b) {
		return false
	}
	for i := range a {
		if a[i] != b[i] {
			return false
		}
	}
	return true
}

func serials(l []*model.Node) []int {
	out := make([]int, len(l))
	for i, n := range l {
		out[i] = n.Serial
	}
	return out
}

// ---------------------------------------------------------------------------------------------
// C17 (invariant part; operations in marks.go)

func (w *World) checkMarked() {
	for _, n := range w.m.All {
		if !n.Accepted || !w.underMarked(n) {
			continue
		}
		if w.onBest(n) {
			cls := "marked-on-best-chain"
			if w.markBeyondPrune {
				cls += ":beyond-prune-depth"
			}
			w.c.Fail("c17.excluded-from-best", cls, "n%d (height %d) is marked invalid or built on a marked header but is part of the reported best chain (tip n%d)", n.Serial, n.Height, w.tip.Serial)
			return
		}
		if _, cl, err := w.repo.CheckHeader(w.ctx, n.Hash); err == nil && cl {
			w.c.Fail("c17.not-in-best-chain-flag", "marked-flagged-best", "CheckHeader(n%d) reports in-most-work-chain for a header under a marked-invalid header", n.Serial)
			return
		}
	}
}
