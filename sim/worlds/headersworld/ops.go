package headersworld

import (
	"encoding/json"
	"fmt"

	"github.com/tokenized/bitcoin_reader/headers"
	"github.com/tokenized/pkg/merkle_proof"

	"verif/sim/core"
	"verif/sim/model"
	"verif/sim/simstore"
)

const realPruneDepth = 10000 // from the property text (C10: "the 10000-header prune depth")

func (w *World) depth() int {
	if w.pruneDepth > 0 {
		return w.pruneDepth
	}
	return realPruneDepth
}

// markPrunable records which best-chain headers may legitimately leave memory at a prune/load now.
func (w *World) markPrunable() int {
	line := w.tip.Height - w.depth()
	n := 0
	for x := w.tip; x != nil; x = x.Parent {
		if x.Height < line && !x.MemOpt {
			x.MemOpt = true
			n++
		}
	}
	if line > w.pruneLine {
		w.pruneLine = line
	}
	return n
}

// sideBranches counts accepted tips other than the best tip.
func (w *World) sideBranches() int {
	n := 0
	for _, t := range w.tips(true) {
		if t != w.tip {
			n++
		}
	}
	return n
}

// execClean runs the maintenance operation A times and checks that nothing observable changed (C10).
func (w *World) execClean(op Op) {
	w.endTwin()
	times := op.A
	if times < 1 {
		times = 1
	}
	for k := 0; k < times && !w.c.Stopped(); k++ {
		newly := w.markPrunable()
		var before string
		if w.on("c10") {
			before = w.snapshot(true)
		}
		oldTip := w.tip
		var err error
		if w.pruneDepth > 0 {
			err = w.repo.CleanWithPruneDepth(w.ctx, w.pruneDepth)
		} else {
			err = w.repo.Clean(w.ctx)
		}
		w.c.Event("clean depth=%d newly-prunable=%d -> %s", w.depth(), newly, errClass(err))
		w.c.Probe("clean")
		if newly > 0 {
			w.c.Probe("prune-dropped-best-chain-history")
		}
		if w.sideBranches() >= 2 {
			w.c.Probe("clean-with>=2-side-branches")
		}
		if w.on("c10") {
			w.c.Nontrivial()
		}
		if err != nil {
			w.c.Fail("c10.clean-succeeds", "clean-error:"+errClass(err), "Clean failed without any injected fault: %s", err)
		}
		if w.on("c10") {
			after := w.snapshot(true)
			if after != before {
				w.c.Fail("c10.clean-changes-nothing", diffClass(before, after), "observables differ across Clean: %s", firstDiff(before, after))
			}
		}
		w.afterMutation(oldTip, nil, "ok")
	}
}

// execSave persists the repository.
func (w *World) execSave() bool {
	w.endTwin()
	err := w.repo.Save(w.ctx)
	w.c.Event("save -> %s", errClass(err))
	w.c.Probe("save")
	if err != nil {
		w.c.Fail("c11.save-succeeds", "save-error:"+errClass(err), "Save failed without any injected fault: %s", err)
		return false
	}
	w.lastSaveTip = w.tip
	w.deepReorgSinceSave = false
	w.markShrankSinceSave = false
	return true
}

// execReload is a graceful restart: Save, then a new repository loaded from the same disk. A&1 keeps
// the old repository as a twin that receives the same submissions afterwards (C11).
func (w *World) execReload(op Op) {
	if !w.execSave() {
		return
	}
	oldTip := w.tip
	oldRepo := w.repo
	// permissions: what may be dropped by this load. Marked before the first snapshot: in long chain
	// mode the sampled heights depend on the prune line, and both snapshots must sample the same set.
	line := w.tip.Height - w.depth()
	w.markPrunable()
	var before string
	if w.on("c11") {
		before = w.snapshotForReload(w.repo)
		w.c.Nontrivial()
	}
	forgettable := 0
	for _, n := range w.m.All {
		if !n.Accepted || w.onBest(n) {
			continue
		}
		fp := model.ForkPoint(n, w.tip)
		if fp == nil || fp.Height < line {
			if !n.Forget {
				n.Forget = true
				forgettable++
			}
		}
	}
	err := w.openFresh()
	w.reloads++
	w.subs = nil
	w.c.Event("reload depth=%d forgettable=%d -> %s", w.depth(), forgettable, errClass(err))
	w.c.Probe("reload")
	if w.reloads >= 2 {
		w.c.Probe("reload-generation>=2")
	}
	if err != nil {
		w.c.Fail("c11.load-succeeds", "load-error:"+errClass(err), "Load after a completed Save failed: %s", err)
		w.c.Stop()
		return
	}
	// resolve permissions
	for _, n := range w.m.All {
		if n.Accepted && n.Forget && w.repo.HashHeight(n.Hash) == -1 {
			n.Accepted = false
			w.c.Probe("side-branch-forgotten-at-load")
		}
	}
	if w.on("c11") {
		after := w.snapshotForReload(w.repo)
		if after != before {
			w.c.Fail("c11.load-restores", diffClass(before, after), "observables differ between the saved and the loaded repository: %s", firstDiff(before, after))
		}
		if w.sideBranches() > 0 {
			w.c.Probe("reload-with-side-branches")
		}
	}
	w.afterMutation(oldTip, nil, "ok")
	if op.A&1 != 0 && w.o.Twin && !w.c.Stopped() {
		w.twin = oldRepo
		w.twinLeft = 12
		w.c.Probe("twin-started")
	}
}

func (w *World) endTwin() { w.twin = nil }

// twinSubmit feeds the submission to the pre-restart repository too: verdict and observables must agree.
func (w *World) twinSubmit(n *model.Node, v string) {
	err := w.twin.ProcessHeader(w.ctx, n.Header)
	v2 := Verdict(err)
	w.c.Probe("twin-submission")
	if v2 != v {
		// a header whose parent may legitimately be out of the loaded repository's memory may differ
		if !(n.Parent != nil && (n.Parent.MemOpt || n.Parent.Forget)) && !n.Forget && !n.MemOpt {
			w.c.Fail("c11.same-verdicts-after-load", fmt.Sprintf("loaded=%s original=%s", classOnly(v), classOnly(v2)),
				"after reload, submission of n%d (height %d, parent n%d) answered %q by the loaded repository but %q by the original", n.Serial, n.Height, serialOf(n.Parent), v, v2)
		}
		w.endTwin()
		return
	}
	a, b := w.snapshotForReload(w.repo), w.snapshotForReload(w.twin)
	if a != b {
		w.c.Fail("c11.same-state-after-load", diffClass(a, b), "after reload and the same submissions the loaded and the original repository differ: %s", firstDiff(a, b))
		w.endTwin()
		return
	}
	w.twinLeft--
	if w.twinLeft <= 0 {
		w.endTwin()
	}
}

// snapshotForReload renders what must survive Save+Load: tip, best chain by height, and for every
// header that is required to be retained its height / best-chain flag.
func (w *World) snapshotForReload(repo *headers.Repository) string {
	line := w.tip.Height - w.depth()
	s := fmt.Sprintf("tip=%s h=%d w=%s\n", repo.LastHash(), repo.Height(), repo.AccumulatedWork().Text(16))
	H := repo.Height()
	for h := 0; h <= H; h++ {
		if !w.sampledHeight(h, H) {
			continue
		}
		hash, err := repo.Hash(w.ctx, h)
		hs := "-"
		if hash != nil {
			hs = hash.String()[:16]
		}
		s += fmt.Sprintf("H%d=%s/%s\n", h, hs, errClass(err))
	}
	for _, n := range w.m.All {
		if !n.Accepted || !w.sampled(n) {
			continue
		}
		if !w.onBest(n) {
			fp := model.ForkPoint(n, w.tip)
			if fp == nil || fp.Height < line || n.Forget {
				continue // beyond the retained depth
			}
		}
		ch, cl, cerr := repo.CheckHeader(w.ctx, n.Hash)
		s += fmt.Sprintf("n%d hh=%d ch=%d/%v/%s\n", n.Serial, repo.HashHeight(n.Hash), ch, cl, errClass(cerr))
	}
	return s
}

// execGrow extends the chain from node B by A headers (serials C, C+1, ...) as one bulk operation: the
// per-event oracle groups run once at the end.
func (w *World) execGrow(op Op) {
	parent := w.bySerial[op.B]
	if parent == nil {
		return
	}
	w.endTwin()
	w.c.Event("grow %d headers on n%d (serials from n%d)", op.A, op.B, op.C)
	w.quiet = true
	serial := op.C
	for i := 0; i < op.A && !w.c.Stopped(); i++ {
		n := w.execMintQuiet(Op{A: serial, B: parent.Serial, C: (i * 7 / 3) % 4 / 3, D: 600, E: 1})
		if n == nil {
			break
		}
		w.Submit(n, 0, "")
		parent = n
		serial++
	}
	w.quiet = false
	w.c.Probe("bulk-growth")
	if !w.c.Stopped() {
		w.groupChecks("ok")
	}
}

// ---------------------------------------------------------------------------------------------
// C17 operations

// execMark: A=serial (-1: a hash nobody mints) N=kind
func (w *World) execMark(op Op) {
	w.endTwin()
	if op.A < 0 {
		var h model.Hash
		h[0], h[1] = 0xee, byte(op.B)
		err := w.repo.MarkHeaderInvalid(w.ctx, h)
		w.c.Event("mark-invalid random-hash -> %s", errClass(err))
		w.c.Probe("mark:unknown-hash")
		if err != nil {
			w.c.Fail("c17.mark-succeeds", "error-on-unknown-hash", "MarkHeaderInvalid(unknown hash) failed: %s", err)
		}
		w.afterMutation(w.tip, nil, "mark")
		return
	}
	n := w.bySerial[op.A]
	if n == nil || n == w.m.Genesis {
		return
	}
	if n.MemOpt || (n.Parent != nil && n.Parent.MemOpt) {
		// Best-chain history that may have left memory. The generator never marks it (see the known
		// finding on marking beyond the prune depth); a hand written witness script sets B=1.
		if op.B != 1 {
			return
		}
		w.markBeyondPrune = true
	}
	oldTip := w.tip
	known := n.Accepted
	wasOnBest := known && model.IsAncestorOrEqual(n, oldTip)
	err := w.repo.MarkHeaderInvalid(w.ctx, n.Hash)
	w.c.Event("mark-invalid n%d (%s, known=%v) -> %s", n.Serial, op.N, known, errClass(err))
	w.c.Probe("mark:" + op.N)
	w.c.Nontrivial()
	if err != nil {
		w.c.Fail("c17.mark-succeeds", "error:"+op.N, "MarkHeaderInvalid(n%d) failed: %s", n.Serial, err)
	}
	w.marked[n.Hash] = true
	if known && n.Parent != nil {
		// The parent may have become the tip of its branch again: a further child is then a plain
		// extension (never depth limited) instead of a new fork. Both answers are accepted.
		w.trimParents[n.Parent] = true
	}
	// everything on the marked header may be dropped from the repository
	for _, x := range w.m.All {
		if x.Accepted && w.underMarked(x) {
			x.Forget = true
			if w.repo.HashHeight(x.Hash) == -1 {
				x.Accepted = false
			}
		}
	}
	if wasOnBest {
		w.c.Probe("mark-forced-fallback")
		w.markShrankSinceSave = true
	}
	w.afterMutation(oldTip, nil, "mark")
	// A marking may rightly lower the tip's work below that of the last completed Save; the floor that
	// C12 holds crash images against (stated for histories of accepted headers) follows it down.
	if w.lastSaveTip != nil && w.tip != nil && w.tip.Work.Cmp(w.lastSaveTip.Work) < 0 {
		w.lastSaveTip = w.tip
	}
}

// execUnmark: A=serial. Removes the marking and resubmits the header and what was built on it.
func (w *World) execUnmark(op Op) {
	w.endTwin()
	n := w.bySerial[op.A]
	if n == nil || !w.marked[n.Hash] {
		return
	}
	err := w.repo.MarkHeaderNotInvalid(w.ctx, n.Hash)
	w.c.Event("mark-not-invalid n%d -> %s", n.Serial, errClass(err))
	w.c.Probe("unmark")
	if err != nil {
		w.c.Fail("c17.unmark-succeeds", "error", "MarkHeaderNotInvalid(n%d) failed: %s", n.Serial, err)
	}
	delete(w.marked, n.Hash)
	if op.B == 1 {
		// the unmarking must survive a restart as well: Save, reload, and only then offer the header again
		w.c.Probe("unmark-then-restart-before-resubmission")
		w.execReload(Op{K: "reload"})
		if w.c.Stopped() {
			return
		}
	}
	for _, x := range append([]*model.Node(nil), w.m.All...) {
		if model.IsAncestorOrEqual(n, x) && !w.underMarked(x) && x.EverAccepted {
			if x.Parent != nil && x.Parent.Accepted {
				was := x.Accepted
				v := w.Submit(x, 0, "(resubmit after unmark) ")
				if v == "ok" && !was {
					w.c.Probe("accepted-again-after-unmark")
				}
				if w.on("c17") && v == "marked-invalid" {
					w.c.Fail("c17.acceptable-after-unmark", classOnly(v), "after unmarking n%d, resubmitting n%d was still refused as marked invalid", n.Serial, x.Serial)
				}
				if w.c.Stopped() {
					return
				}
			}
		}
	}
}

// ---------------------------------------------------------------------------------------------
// C18

var corruptionKinds = []string{"none", "txid", "path-element", "index", "header-merkle-root", "unknown-block-hash", "header-not-in-tree", "path-truncated", "path-extended"}

// execProof: A=serial B=tx index C=1 with header / 0 hash only D=corruption kind E=random
func (w *World) execProof(op Op) {
	n := w.bySerial[op.A]
	if n == nil || !n.Accepted || n.Forget || len(n.Txids) == 0 {
		return
	}
	i := op.B % len(n.Txids)
	withHeader := op.C&1 != 0
	path, _ := model.MerklePath(n.Txids, i)
	mk := func() *merkle_proof.MerkleProof {
		txid := n.Txids[i]
		p := &merkle_proof.MerkleProof{Index: i, TxID: &txid, Path: append([]model.Hash(nil), path...)}
		if withHeader {
			h := n.Header.Copy()
			p.BlockHeader = &h
		} else {
			bh := n.Hash
			p.BlockHash = &bh
		}
		return p
	}
	onBest := w.onBest(n)
	where := "best"
	if !onBest {
		where = "side"
		w.c.Probe("proof-on-side-branch")
	}
	if n.MemOpt {
		where += "-pruned"
		w.c.Probe("proof-in-pruned-history")
	}
	if len(n.Txids)%2 == 1 && len(n.Txids) > 1 {
		w.c.Probe("proof-odd-width")
	}
	if !withHeader {
		w.c.Probe("proof-by-block-hash-only")
	}
	height, longest, err := w.repo.VerifyMerkleProof(w.ctx, mk())
	w.c.Event("verify-proof n%d tx=%d/%d header=%v -> %d %v %s", n.Serial, i, len(n.Txids), withHeader, height, longest, errClass(err))
	w.c.Nontrivial()
	if err != nil {
		w.c.Fail("c18.valid-proof-verifies", where+" "+errClass(err), "valid proof for tx %d of n%d (height %d, %s) rejected: %s", i, n.Serial, n.Height, where, err)
	} else {
		if height != n.Height {
			w.c.Fail("c18.height", fmt.Sprintf("%s %+d", where, clamp(height-n.Height)), "proof for n%d verified with height %d, true height %d", n.Serial, height, n.Height)
		}
		if longest != onBest {
			w.c.Fail("c18.best-chain-flag", fmt.Sprintf("%s flag=%v", where, longest), "proof for n%d (height %d) verified with in-best-chain=%v, want %v (tip n%d)", n.Serial, n.Height, longest, onBest, w.tip.Serial)
		}
	}
	k := corruptionKinds[op.D%len(corruptionKinds)]
	if k == "none" {
		return
	}
	rnd := op.E
	p := mk()
	switch k {
	case "txid":
		x := *p.TxID
		x[rnd%32] ^= byte(1 + (rnd/32)%255)
		p.TxID = &x
	case "path-element":
		if len(p.Path) == 0 {
			return
		}
		p.Path[rnd%len(p.Path)][(rnd/7)%32] ^= byte(1 + (rnd/300)%255)
	case "index":
		if len(p.Path) == 0 {
			return
		}
		p.Index ^= 1 << (rnd % len(p.Path))
	case "header-merkle-root":
		if !withHeader {
			return
		}
		p.BlockHeader.MerkleRoot[rnd%32] ^= byte(1 + (rnd/32)%255)
	case "unknown-block-hash":
		var u model.Hash
		u[0], u[1] = 0xab, byte(rnd)
		p.BlockHeader = nil
		p.BlockHash = &u
	case "header-not-in-tree":
		h := n.Header.Copy()
		h.Nonce ^= 0x5a5a5a5a
		p.BlockHeader = &h
		p.BlockHash = nil
	case "path-truncated":
		if len(p.Path) == 0 {
			return
		}
		p.Path = p.Path[:len(p.Path)-1]
	case "path-extended":
		p.Path = append(p.Path, model.DoubleSHA([]byte("extra")))
	}
	_, _, cerr := w.repo.VerifyMerkleProof(w.ctx, p)
	w.c.Event("verify-corrupted-proof n%d %s -> %s", n.Serial, k, errClass(cerr))
	w.c.Probe("corruption:" + k)
	if cerr == nil {
		w.c.Fail("c18.corrupted-proof-fails", k, "proof for tx %d of n%d with corrupted %s verified", i, n.Serial, k)
	}
}

// execSplit configures a chain split at the next height: the current tip is the header on both chains,
// a freshly minted child of it (never part of our chain: submitting it must be refused as the wrong
// chain) is the first header of the other chain. A=serial of that header.
func (w *World) execSplit(op Op) {
	if w.tip == nil || len(w.splits) >= 3 {
		return
	}
	x := w.execMint(Op{K: "mint", A: op.A, B: w.tip.Serial, C: 0, D: 600, E: 1})
	if x == nil {
		return
	}
	if w.splitAfter == nil {
		w.splitAfter, w.splitBefore = map[model.Hash]int{}, map[model.Hash]bool{}
	}
	w.splits = append(w.splits, headers.Split{Name: fmt.Sprintf("SIM%d", len(w.splits)), BeforeHash: w.tip.Hash, AfterHash: x.Hash, Height: x.Height})
	w.splitAfter[x.Hash] = x.Height
	w.splitBefore[w.tip.Hash] = true
	w.applySplits(w.repo)
	if w.twin != nil {
		w.applySplits(w.twin)
	}
	w.pendingS = append(w.pendingS, pendingSerial{serial: x.Serial, peer: 0})
	w.c.Event("chain split configured at height %d: n%d on both chains, n%d starts the other chain", x.Height, w.tip.Serial, x.Serial)
	w.c.Probe("split-configured")
}

// ---------------------------------------------------------------------------------------------
// C19

// execLocator: A=max
func (w *World) execLocator(op Op) {
	max := op.A
	if max < 1 {
		max = 1
	}
	hashes, err := w.repo.GetLocatorHashes(w.ctx, max)
	w.c.Event("locator max=%d tip=n%d h=%d -> %d hashes %s", max, w.tip.Serial, w.tip.Height, len(hashes), errClass(err))
	w.c.Nontrivial()
	if err != nil {
		w.c.Fail("c19.locator-succeeds", "error", "GetLocatorHashes(%d) failed: %s", max, err)
		return
	}
	if w.tip.Height <= 1 {
		w.c.Probe("locator-at-height<=1")
	}
	if w.pruneLine > 0 {
		w.c.Probe("locator-on-pruned-chain")
	}
	if w.sideBranches() >= 2 {
		w.c.Probe("locator-with>=2-side-branches")
	}
	seen := map[model.Hash]bool{}
	best := 0
	var firstBest *model.Node
	lastHeight := 1 << 30
	for i, h := range hashes {
		if seen[h] {
			w.c.Fail("c19.no-duplicates", "duplicate", "locator(max=%d) contains %s twice", max, h)
		}
		seen[h] = true
		if w.splitBefore[h] && !(w.tip.Parent != nil && h == w.tip.Parent.Hash) {
			// a configured chain-split fork point: a member by configuration, whatever the repository
			// holds now; it is placed by the height of the split (one above its own), so it takes no part
			// in the order, the starting point or the count of the best-chain hashes
			w.c.Probe("locator-contains-split-fork-point")
			continue
		}
		n := w.m.ByHash[h]
		if n == nil || !n.Accepted {
			w.c.Fail("c19.members", "unknown-hash", "locator(max=%d)[%d] = %s is not a header the repository holds", max, i, h)
			continue
		}
		if n.Height > lastHeight {
			w.c.Fail("c19.order", "not-newest-first", "locator(max=%d) is not ordered newest first at index %d (height %d after %d)", max, i, n.Height, lastHeight)
		}
		lastHeight = n.Height
		if w.onBest(n) {
			// Best-chain hashes that are the first header of a (possibly ancestor) branch come from
			// the side-branch clause, not from the back-off walk: the first header in memory, and a
			// header whose parent has another accepted child. They do not count against max.
			if !(n.Parent == nil || n.Parent.MemOpt || hasAcceptedChild(n.Parent, n)) || n == w.tip.Parent {
				best++
			}
			if firstBest == nil {
				firstBest = n
			}
		} else if n.Parent == nil || !(w.onBest(n.Parent) || hasAcceptedChild(n.Parent, n)) {
			w.c.Fail("c19.members", "side-hash-not-a-branch-base", "locator(max=%d)[%d] = n%d (height %d) is neither a best-chain header nor the first header of a side branch", max, i, n.Serial, n.Height)
		}
	}
	if w.tip.Height == 0 {
		if len(hashes) != 1 || hashes[0] != w.m.Genesis.Hash {
			w.c.Fail("c19.genesis-alone", "height-0", "locator at height 0 is %v, want the genesis hash alone", hashes)
		}
	} else if firstBest == nil || firstBest != w.tip.Parent {
		w.c.Fail("c19.starts-at-tip-parent", fmt.Sprintf("first-best=%+d", clamp(heightOf(firstBest)-w.tip.Parent.Height)),
			"first best-chain hash of the locator is n%d (height %d); want the tip's parent n%d (height %d) so that the reply starts with our tip",
			serialOf(firstBest), heightOf(firstBest), w.tip.Parent.Serial, w.tip.Parent.Height)
	}
	if best > max {
		w.c.Fail("c19.max", "too-many", "locator(max=%d) has %d best-chain hashes that are not branch bases", max, best)
	}

	// the simulated conformant peer: every root-to-leaf path of the reference tree sharing a hash
	for _, leaf := range w.tips(false) {
		var at *model.Node
		for _, h := range hashes {
			n := w.m.ByHash[h]
			if n != nil && model.IsAncestorOrEqual(n, leaf) {
				at = n
				break
			}
		}
		if at == nil || at == leaf {
			continue
		}
		if w.splitBefore[at.Hash] && !at.Accepted {
			continue // a configured fork point that the repository does not hold (any more)
		}
		first := model.AncestorAt(leaf, at.Height+1)
		if first == nil {
			continue
		}
		if at == w.tip.Parent && first != w.tip {
			w.c.Probe("peer-on-sibling-of-tip")
		}
		v := w.Submit(first, 0, "(conformant peer reply) ")
		w.c.Probe("conformant-peer-reply")
		if v == "unknown-parent" && !at.MemOpt {
			w.c.Fail("c19.reply-connects", "unknown-parent", "peer on chain ending n%d answered locator hash n%d (height %d) with n%d, which did not connect to a header we hold", leaf.Serial, at.Serial, at.Height, first.Serial)
		}
		if w.c.Stopped() {
			return
		}
	}
}

func heightOf(n *model.Node) int {
	if n == nil {
		return -1
	}
	return n.Height
}

// ---------------------------------------------------------------------------------------------
// C12

// execCrash runs Clean (A=0) or Save (A=1), then enumerates EVERY prefix of the storage mutations it
// issued: for each prefix the disk image (pre-call image + prefix) is loaded into a fresh repository,
// which must load without error or panic and report a linked chain of accepted headers with at least
// the work of the tip at the last completed Save (fault enumeration within the sampled history).
func (w *World) execCrash(op Op) {
	w.endTwin()
	pre := w.st.Clone()
	from := w.st.LogLen()
	lastSaved := w.lastSaveTip
	deepBefore := w.deepReorgSinceSave // as it was before the operation whose prefixes are enumerated
	markBefore := w.markShrankSinceSave
	name := "clean"
	if op.A&1 == 1 {
		name = "save"
		w.execSave()
	} else {
		w.execClean(Op{A: 1})
	}
	if w.c.Stopped() {
		return
	}
	muts := append([]simstore.Mutation(nil), w.st.Log(from)...)
	w.c.Event("crash-enumeration op=%s mutations=%d", name, len(muts))
	w.c.Nontrivial()
	w.c.FaultN("crash-point", len(muts)+1)
	if len(muts) >= 4 {
		w.c.Probe("crash-op-with>=4-mutations")
	}
	if w.sideBranches() > 0 {
		w.c.Probe("crash-with-side-branches")
	}
	for k := 0; k <= len(muts); k++ {
		img := pre.Clone()
		img.Apply(muts[:k])
		w.imageAfterDeepReorg = deepBefore
		w.imageAfterMarkShrank = markBefore
		w.checkImage(img, fmt.Sprintf("%s, crash after %d of %d storage mutations", name, k, len(muts)), lastSaved)
		w.imageAfterDeepReorg = false
		w.imageAfterMarkShrank = false
	}
}

// checkImage loads a disk image into a fresh repository and checks C12's oracle.
func (w *World) checkImage(img *simstore.Store, what string, lastSaved *model.Node) {
	repo := headers.NewRepository(w.cfg, img)
	repo.DisableDifficulty()
	w.applySplits(repo)
	var err error
	panicked := false
	func() {
		defer func() {
			if r := recover(); r != nil {
				panicked = true
				s := fmt.Sprint(r)
				w.c.Fail("c12.load-no-panic", core.ClassifyPanic(s), "%s: Load panicked: %v", what, r)
			}
		}()
		if w.pruneDepth > 0 {
			err = repo.LoadWithPruneDepth(w.ctx, w.pruneDepth)
		} else {
			err = repo.Load(w.ctx)
		}
	}()
	if panicked {
		return
	}
	if err != nil {
		w.c.Fail("c12.load-succeeds", errClass(err), "%s: Load failed: %s", what, err)
		return
	}
	last := repo.LastHash()
	tn := w.m.ByHash[last]
	if tn == nil || !tn.EverAccepted {
		w.c.Fail("c12.tip-was-accepted", "unknown-tip", "%s: loaded tip %s was never accepted", what, last)
		return
	}
	if repo.Height() != tn.Height {
		w.c.Fail("c12.height", "height-mismatch", "%s: loaded Height()=%d but tip n%d is at height %d", what, repo.Height(), tn.Serial, tn.Height)
	}
	if lastSaved != nil && tn.Work.Cmp(lastSaved.Work) < 0 {
		w.c.Fail("c12.work-not-less-than-last-save", "work-regressed", "%s: loaded tip n%d has work %s, less than the tip n%d (work %s) at the last completed Save",
			what, tn.Serial, tn.Work.Text(16), lastSaved.Serial, lastSaved.Work.Text(16))
	}
	if repo.AccumulatedWork().Cmp(tn.Work) != 0 {
		w.c.Fail("c12.work-consistent", "work-mismatch", "%s: loaded accumulated work %s differs from the tip's %s", what, repo.AccumulatedWork().Text(16), tn.Work.Text(16))
	}
	if w.imageAfterDeepReorg {
		w.ancestrySuffix = ":after-reorg-deeper-than-prune-depth"
	} else if w.imageAfterMarkShrank {
		w.ancestrySuffix = ":after-marking-removed-best-chain-headers"
	}
	linked := w.checkAncestry("c12.chain-linked", repo, tn)
	w.ancestrySuffix = ""
	if !linked {
		return
	}
	// usable, not merely loadable: extend the loaded tip by one header
	probe := *tn.Header
	probe.PrevBlock = tn.Hash
	probe.Nonce = 0xfffffff0
	probe.Timestamp += 600
	probe.Bits = bitsMenu[0]
	if err := repo.ProcessHeader(w.ctx, &probe); err != nil {
		w.c.Fail("c12.usable-after-load", Verdict(err), "%s: extending the loaded tip failed: %s", what, err)
	} else if repo.LastHash() != model.HeaderHash(&probe) {
		w.c.Fail("c12.usable-after-load", "tip-not-extended", "%s: extending the loaded tip did not move the tip", what)
	}
}

// ---------------------------------------------------------------------------------------------
// dispatch

// Exec executes one operation and records it in the run's script.
func (w *World) Exec(op Op) {
	w.c.Record(op)
	switch op.K {
	case "mint":
		w.execMint(op)
	case "submit":
		w.execSubmit(op)
	case "grow":
		w.execGrow(op)
	case "drop":
		w.c.Event("drop n%d", op.A)
	case "clean":
		w.execClean(op)
	case "save":
		w.execSave()
	case "reload":
		w.execReload(op)
	case "subscribe":
		w.endTwin()
		w.execSubscribe()
	case "ranges":
		if w.on("c09") {
			w.execRanges(op)
		}
	case "mark":
		w.execMark(op)
	case "unmark":
		w.execUnmark(op)
	case "proof":
		w.execProof(op)
	case "split":
		w.execSplit(op)
	case "locator":
		w.execLocator(op)
	case "crash":
		w.execCrash(op)
	default:
		panic("unknown op " + op.K)
	}
}

// Run is the run loop shared by the Engine S header properties.
func Run(c *core.Ctx, o Opts) *World {
	if n, ok := backlogConfig(c); ok {
		backlogScenario(c, n)
		return nil
	}
	if c.Script == nil && o.Backlog > 0 && c.T.Chance(1, o.Backlog) {
		// C07: a subscriber with a backlog larger than its channel (own small world, see backlog.go)
		n := 10001 + c.T.Draw(8)
		c.Record(Op{K: "config", D: 3, A: n})
		backlogScenario(c, n)
		return nil
	}
	w := Start(c, o)
	if c.Script != nil {
		for _, raw := range c.Script[1:] {
			var op Op
			if err := json.Unmarshal(raw, &op); err != nil {
				panic(err)
			}
			if c.Stopped() {
				break
			}
			w.Exec(op)
		}
		return w
	}
	for i := 0; i < w.steps && !c.Stopped(); i++ {
		for _, op := range w.gen() {
			if c.Stopped() {
				break
			}
			w.Exec(op)
		}
	}
	// fault free epilogue: deliver what is still in flight, in order
	for len(w.pendingS) > 0 && !c.Stopped() {
		d := w.pendingS[0]
		w.pendingS = w.pendingS[1:]
		w.Exec(Op{K: "submit", A: d.serial, B: d.peer, N: "(epilogue) "})
	}
	return w
}
