package headersworld

import (
	"verif/sim/model"
)

// The generator: looks at the current state, draws from the tape, and emits the next operations.

func (w *World) newSerial() int {
	s := w.nextSer
	w.nextSer++
	return s
}

func (w *World) genMint(parent int, miner int) Op {
	t := w.c.T
	d := 600 + w.skew[miner%len(w.skew)] - 600*t.Draw(3)
	ntx := 1
	if w.o.Txids {
		ntx = 1 + t.Draw(9)
	}
	return Op{K: "mint", A: w.newSerial(), B: parent, C: w.genBits(), D: d, E: ntx}
}

func (w *World) maxDepthForFork() int {
	if w.maxDepth > 10 {
		return 10
	}
	return w.maxDepth
}

// chooseParent picks where the next header is mined: mostly on a tip (best or side), sometimes on an
// interior header at a small depth (fork), on a side branch interior (fork of fork), or on a header
// that is not delivered yet (so that its child can arrive as an orphan).
func (w *World) chooseParent() *model.Node {
	t := w.c.T
	switch t.Weighted([]int{40, 25, 20, 10, 5}) {
	case 0: // extend the reported best tip (or its undelivered descendants)
		n := w.tip
		for len(n.Children) > 0 && t.Chance(1, 2) {
			n = n.Children[t.Draw(len(n.Children))]
		}
		return n
	case 1: // extend some tip of the tree
		tp := w.tips(false)
		return tp[t.Draw(len(tp))]
	case 2: // fork below the best tip
		d := t.Draw(w.maxDepthForFork() + 2)
		n := w.tip
		for i := 0; i < d && n.Parent != nil; i++ {
			n = n.Parent
		}
		return n
	case 3: // fork below some side tip
		tp := w.tips(false)
		n := tp[t.Draw(len(tp))]
		d := t.Draw(4)
		for i := 0; i < d && n.Parent != nil; i++ {
			n = n.Parent
		}
		return n
	default: // any header
		return w.m.All[t.Draw(len(w.m.All))]
	}
}

type pendingSerial struct {
	serial int
	peer   int
}

// genDeliver emits the delivery of one in-flight header chosen by the (faulty) network.
func (w *World) genDeliver() []Op {
	t := w.c.T
	if len(w.pendingS) == 0 {
		return nil
	}
	i := 0
	if t.Chance(w.rReorder, 1000) {
		i = t.Draw(len(w.pendingS))
		if i != 0 {
			w.c.Fault("net-reorder")
		}
	}
	d := w.pendingS[i]
	if t.Chance(w.rDrop, 1000) {
		w.pendingS = append(w.pendingS[:i], w.pendingS[i+1:]...)
		w.c.Fault("net-drop")
		return []Op{{K: "drop", A: d.serial}}
	}
	if t.Chance(w.rDup, 1000) {
		w.c.Fault("net-duplicate") // stays in flight: delivered again later
	} else {
		w.pendingS = append(w.pendingS[:i], w.pendingS[i+1:]...)
	}
	return []Op{{K: "submit", A: d.serial, B: d.peer}}
}

func (w *World) genMintStep() []Op {
	t := w.c.T
	p := w.chooseParent()
	miner := t.Draw(w.peers)
	op := w.genMint(p.Serial, miner)
	copies := 1
	if t.Chance(1, 6) {
		copies = 2 + t.Draw(2)
		w.c.Fault("same-header-from-several-peers")
	}
	for k := 0; k < copies; k++ {
		w.pendingS = append(w.pendingS, pendingSerial{serial: op.A, peer: (miner + k) % w.peers})
	}
	out := []Op{op}
	if t.Chance(7, 10) {
		out = append(out, w.genDeliver()...)
	}
	return out
}

// genAdversarial emits a submission chosen adversarially relative to the current state (C08).
func (w *World) genAdversarial() []Op {
	t := w.c.T
	var out []Op
	var target int
	note := ""
	switch t.Weighted([]int{3, 4, 3, 3, 2, 2}) {
	case 0: // orphan: child of a header that is minted but never delivered
		p := w.genMint(w.chooseParent().Serial, t.Draw(w.peers))
		n := w.genMint(p.A, t.Draw(w.peers))
		out = append(out, p, n)
		target = n.A
		note = "(adversarial orphan) "
		w.c.Probe("adv-orphan")
	case 1: // duplicate of any known header on any branch
		var acc []*model.Node
		for _, x := range w.m.All {
			if x.Accepted {
				acc = append(acc, x)
			}
		}
		n := acc[t.Draw(len(acc))]
		target = n.Serial
		note = "(adversarial duplicate) "
		if !w.onBest(n) {
			w.c.Probe("adv-duplicate-on-side-branch")
		} else if n != w.tip {
			w.c.Probe("adv-duplicate-best-interior")
		}
	case 2: // child of the best-chain header exactly at the maximum fork depth
		p := model.AncestorAt(w.tip, w.tip.Height-w.maxDepth)
		if p == nil {
			p = w.m.Genesis
		}
		n := w.genMint(p.Serial, t.Draw(w.peers))
		out = append(out, n)
		target = n.A
		note = "(adversarial fork at max depth) "
		if w.tip.Height-p.Height == w.maxDepth && hasAcceptedChild(p, nil) {
			w.c.Probe("adv-fork-exactly-at-max-depth")
		}
	case 3: // one beyond
		p := model.AncestorAt(w.tip, w.tip.Height-w.maxDepth-1)
		if p == nil {
			p = w.m.Genesis
		}
		n := w.genMint(p.Serial, t.Draw(w.peers))
		out = append(out, n)
		target = n.A
		note = "(adversarial fork beyond max depth) "
		if w.tip.Height-p.Height == w.maxDepth+1 {
			w.c.Probe("adv-fork-one-beyond-max-depth")
		}
	case 4: // extension of a side-branch tip that is itself deeper than the maximum
		var cands []*model.Node
		for _, x := range w.tips(true) {
			if x != w.tip && w.tip.Height-x.Height > w.maxDepth {
				cands = append(cands, x)
			}
		}
		if len(cands) == 0 {
			cands = w.tips(true)
		} else {
			w.c.Probe("adv-extend-deep-side-tip")
		}
		n := w.genMint(cands[t.Draw(len(cands))].Serial, t.Draw(w.peers))
		out = append(out, n)
		target = n.A
		note = "(adversarial extend side tip) "
	default: // fork from the interior of a side branch
		var cands []*model.Node
		for _, x := range w.m.All {
			if x.Accepted && !w.onBest(x) {
				cands = append(cands, x)
			}
		}
		if len(cands) == 0 {
			cands = []*model.Node{w.tip}
		} else {
			w.c.Probe("adv-fork-of-side-branch")
		}
		n := w.genMint(cands[t.Draw(len(cands))].Serial, t.Draw(w.peers))
		out = append(out, n)
		target = n.A
		note = "(adversarial fork of side branch) "
	}
	flags := 0
	if t.Chance(1, 3) {
		flags = 1 // compare the bytes written by Save before and after a refusal
	}
	out = append(out, Op{K: "submit", A: target, B: t.Draw(w.peers), C: flags, N: note})
	return out
}

func (w *World) genMark() []Op {
	t := w.c.T
	switch t.Weighted([]int{4, 3, 2, 2, 1}) {
	case 0: // on the best chain at some depth (never genesis)
		d := t.Draw(6)
		n := w.tip
		for i := 0; i < d && n.Parent != nil && n.Parent.Parent != nil; i++ {
			n = n.Parent
		}
		if n == w.m.Genesis || n.MemOpt || (n.Parent != nil && n.Parent.MemOpt) {
			return nil
		}
		return []Op{{K: "mark", A: n.Serial, N: "best-chain"}}
	case 1: // on a side branch
		var c []*model.Node
		for _, x := range w.m.All {
			if x.Accepted && !w.onBest(x) && !x.Forget {
				c = append(c, x)
			}
		}
		if len(c) == 0 {
			return nil
		}
		n := c[t.Draw(len(c))]
		kind := "side-branch"
		if n.Parent != nil && w.onBest(n.Parent) {
			kind = "first-of-branch"
		}
		return []Op{{K: "mark", A: n.Serial, N: kind}}
	case 2: // not yet seen: minted but undelivered
		m := w.genMint(w.chooseParent().Serial, t.Draw(w.peers))
		w.pendingS = append(w.pendingS, pendingSerial{serial: m.A})
		return []Op{m, {K: "mark", A: m.A, N: "not-yet-seen"}}
	case 3: // already marked
		for _, x := range w.m.All {
			if w.marked[x.Hash] {
				return []Op{{K: "mark", A: x.Serial, N: "already-marked"}}
			}
		}
		return nil
	default:
		return []Op{{K: "mark", A: -1, B: t.Draw(256)}}
	}
}

func (w *World) genUnmark() []Op {
	var c []*model.Node
	for _, x := range w.m.All {
		if w.marked[x.Hash] {
			c = append(c, x)
		}
	}
	if len(c) == 0 {
		return nil
	}
	return []Op{{K: "unmark", A: c[w.c.T.Draw(len(c))].Serial, B: w.c.T.Draw(2)}}
}

func (w *World) genProof() []Op {
	t := w.c.T
	var acc []*model.Node
	for _, x := range w.m.All {
		if x.Accepted && !x.Forget && len(x.Txids) > 0 {
			acc = append(acc, x)
		}
	}
	if len(acc) == 0 {
		return nil
	}
	n := acc[t.Draw(len(acc))]
	if t.Chance(1, 3) { // bias to pruned history and side branches
		for _, x := range acc {
			if (x.MemOpt && t.Chance(1, 2)) || (!w.onBest(x) && t.Chance(1, 2)) {
				n = x
				break
			}
		}
	}
	return []Op{{K: "proof", A: n.Serial, B: t.Draw(len(n.Txids)), C: t.Draw(2), D: t.Draw(len(corruptionKinds)), E: t.Draw(1 << 20)}}
}

func (w *World) genRanges() []Op {
	t := w.c.T
	H := w.tip.Height
	start := t.Draw(H + 2)
	count := 1 + t.Draw(12)
	if t.Chance(1, 5) {
		count = 1 + t.Draw(2100)
	}
	return []Op{{K: "ranges", A: start, B: count}}
}

// genStraddle (boundary mode): a heavier header on the tip just below the automatic clean height and
// a fork of ordinary headers from the old tip that overtakes a few heights later, so the best chain can
// pass the clean height by reorganisation instead of by extension.
func (w *World) genStraddle() []Op {
	t := w.c.T
	var out []Op
	base := w.tip
	heavy := Op{K: "mint", A: w.newSerial(), B: base.Serial, C: 1 + t.Draw(2), D: 600, E: 1}
	out = append(out, heavy, Op{K: "submit", A: heavy.A, B: 0})
	prev := base.Serial
	if t.Chance(1, 3) && base.Parent != nil {
		prev = base.Parent.Serial
	}
	for i, k := 0, 2+t.Draw(6); i < k; i++ {
		m := Op{K: "mint", A: w.newSerial(), B: prev, C: 0, D: 600, E: 1}
		out = append(out, m, Op{K: "submit", A: m.A, B: t.Draw(w.peers)})
		prev = m.A
	}
	w.c.Probe("boundary-straddle-attempt")
	return out
}

// gen emits the next operations.
func (w *World) gen() []Op {
	o := w.o
	t := w.c.T
	if w.boundary && w.nextSer > 1 && !w.straddled {
		w.straddled = true
		if t.Chance(3, 4) {
			return w.genStraddle()
		}
	}
	if w.large && (w.nextSer == 1 || t.Chance(1, 12)) {
		n := 100 + t.Draw(1000)
		if w.nextSer == 1 {
			n = 900 + t.Draw(1800)
		}
		if w.c.Thorough() && w.nextSer == 1 && t.Chance(1, 6) {
			n = 10050 + t.Draw(400) // beyond the real prune depth
		}
		if w.boundary {
			if w.nextSer != 1 {
				return w.genMintStep() // stay near the line: no further bulk growth
			}
			n = realPruneDepth - 1 - t.Draw(5)
			w.c.Probe("boundary-mode")
		}
		op := Op{K: "grow", A: n, B: w.tip.Serial, C: w.nextSer}
		w.nextSer += n
		w.c.Nontrivial()
		return []Op{op}
	}
	if o.WSplit > 0 && len(w.splits) < 2 && w.tip.Height >= 1 && t.Chance(o.WSplit, 1000) {
		return []Op{{K: "split", A: w.newSerial()}}
	}
	switch t.Weighted([]int{o.WMint, o.WDeliver, o.WClean, o.WSave, o.WReload, o.WSubscribe, o.WQuery, o.WAdversarial, o.WMark, o.WUnmark, o.WProof, o.WLocator, o.WCrash}) {
	case 0:
		return w.genMintStep()
	case 1:
		return w.genDeliver()
	case 2:
		return []Op{{K: "clean", A: 1 + t.Weighted([]int{6, 2, 1})}}
	case 3:
		return []Op{{K: "save"}}
	case 4:
		return []Op{{K: "reload", A: t.Draw(2)}}
	case 5:
		return []Op{{K: "subscribe"}}
	case 6:
		return w.genRanges()
	case 7:
		return w.genAdversarial()
	case 8:
		return w.genMark()
	case 9:
		return w.genUnmark()
	case 10:
		return w.genProof()
	case 11:
		maxes := []int{1, 2, 3, 10, 50}
		return []Op{{K: "locator", A: maxes[t.Draw(len(maxes))]}}
	case 12:
		return []Op{{K: "crash", A: t.Draw(2)}}
	}
	return nil
}
