// Package peersworld is the simulation world for the peer address book (C20): the real
// StoragePeerRepository over the simulated disk inside a synctest bubble (fake clock), driven by an
// operation sequence drawn from the tape or read from a script, checked step by step against a
// trivial reference (an ordered list), with every prefix of every saved file and mutated files loaded
// into fresh repositories.
package peersworld

import (
	"context"
	"encoding/binary"
	"encoding/json"
	"fmt"
	"sort"
	"strings"
	"time"

	bitcoin_reader "github.com/tokenized/bitcoin_reader"
	"github.com/tokenized/logger"

	"verif/sim/core"
	"verif/sim/simstore"
)

type Op struct {
	K string `json:"k"`
	A int    `json:"a,omitempty"`
	B int    `json:"b,omitempty"`
	C int    `json:"c,omitempty"`
	N string `json:"n,omitempty"`
}

type mpeer struct {
	addr  string
	score int32
	last  uint32
}

type World struct {
	c    *core.Ctx
	ctx  context.Context
	st   *simstore.Store
	repo *bitcoin_reader.StoragePeerRepository
	m    []mpeer
	pool []string
	path string
	// savedModel maps the bytes of a saved file to the reference state at that Save
	savedModel map[string][]mpeer
}

func addressPool() []string {
	long := strings.Repeat("x", 65536) + ":8333"
	return []string{
		"[2001:db8::1]:8333", "", "a", "10.0.0.1:8333", "10.0.0.2:8333", "Peer.Example:8333", "peer.example:8333",
		"ünï→☃.example:8333", "[::1]:18333", long, "10.0.0.1:8333 ", "\x00\x01\x02", "seed-7:8333", "seed-8:8333", "seed-9:8333",
	}
}

func (w *World) find(a string) int {
	for i := range w.m {
		if w.m[i].addr == a {
			return i
		}
	}
	return -1
}

func now32() uint32 { return uint32(time.Now().Unix()) }

func render(a string) string {
	if len(a) > 24 {
		return fmt.Sprintf("%q..(%d bytes)", a[:12], len(a))
	}
	return fmt.Sprintf("%q", a)
}

func canon(l []mpeer) []string {
	out := make([]string, len(l))
	for i, p := range l {
		out[i] = fmt.Sprintf("%s|%d|%d", render(p.addr), p.score, p.last)
	}
	sort.Strings(out)
	return out
}

func (w *World) implPeers(repo *bitcoin_reader.StoragePeerRepository, min, max int32) ([]mpeer, error) {
	l, err := repo.Get(w.ctx, min, max)
	if err != nil {
		return nil, err
	}
	out := make([]mpeer, len(l))
	for i, p := range l {
		out[i] = mpeer{p.Address, p.Score, p.LastTime}
	}
	return out, nil
}

func same(a, b []string) bool {
	if len(a) != len(b) {
		return false
	}
	for i := range a {
		if a[i] != b[i] {
			return false
		}
	}
	return true
}

// checkAll compares the whole book with the reference.
func (w *World) checkAll(after string) {
	if n := w.repo.Count(); n != len(w.m) {
		w.c.Fail("c20.count", diffSign(n-len(w.m)), "after %s: Count()=%d, reference holds %d addresses", after, n, len(w.m))
	}
	all, err := w.implPeers(w.repo, -2147483648, -1)
	if err != nil {
		w.c.Fail("c20.get", "error", "Get failed: %s", err)
		return
	}
	got, want := canon(all), canon(w.m)
	if !same(got, want) {
		cls := "content"
		seen := map[string]bool{}
		for _, p := range all {
			if seen[p.addr] {
				cls = "duplicate-address"
			}
			seen[p.addr] = true
		}
		w.c.Fail("c20.book-equals-reference", cls, "after %s the book differs from the reference:\n got  %v\n want %v", after, got, want)
	}
}

func diffSign(d int) string {
	if d > 0 {
		return "more"
	}
	return "fewer"
}

func (w *World) exec(op Op) {
	w.c.Record(op)
	addr := ""
	if op.K == "add" || op.K == "score" || op.K == "time" {
		addr = w.pool[op.A%len(w.pool)]
	}
	switch op.K {
	case "sleep":
		time.Sleep(time.Duration(op.A) * time.Second)
		w.c.AddSimTime(int64(op.A) * 1e9)
		w.c.Event("sleep %ds", op.A)
	case "add":
		ok, err := w.repo.Add(w.ctx, addr)
		w.c.Event("add %s -> %v %v", render(addr), ok, err)
		want := w.find(addr) == -1
		if err != nil || ok != want {
			w.c.Fail("c20.add", fmt.Sprintf("got=%v want=%v", ok, want), "Add(%s) returned (%v,%v), reference says new=%v", render(addr), ok, err, want)
		}
		if want {
			w.m = append(w.m, mpeer{addr: addr})
		} else {
			w.c.Probe("add-existing-address")
		}
		w.checkAll("add")
	case "score":
		delta := int32(op.B)
		t := now32()
		ok := w.repo.UpdateScore(w.ctx, addr, delta)
		w.c.Event("score %s %+d -> %v", render(addr), delta, ok)
		i := w.find(addr)
		if ok != (i != -1) {
			w.c.Fail("c20.update-score", fmt.Sprintf("got=%v", ok), "UpdateScore(%s) returned %v, reference says present=%v", render(addr), ok, i != -1)
		}
		if i != -1 {
			w.m[i].score += delta
			w.m[i].last = t
			if w.m[i].score < 0 {
				w.c.Probe("negative-score")
			}
		}
		w.checkAll("score")
	case "time":
		t := now32()
		ok := w.repo.UpdateTime(w.ctx, addr)
		w.c.Event("time %s -> %v", render(addr), ok)
		i := w.find(addr)
		if ok != (i != -1) {
			w.c.Fail("c20.update-time", fmt.Sprintf("got=%v", ok), "UpdateTime(%s) returned %v, reference says present=%v", render(addr), ok, i != -1)
		}
		if i != -1 {
			w.m[i].last = t
		}
		w.checkAll("time")
	case "get":
		min, max := int32(op.A), int32(op.B)
		got, err := w.implPeers(w.repo, min, max)
		var want []mpeer
		for _, p := range w.m {
			if p.score >= min && (max == -1 || p.score <= max) {
				want = append(want, p)
			}
		}
		w.c.Event("get [%d,%d] -> %d peers %v", min, max, len(got), err)
		if max == -1 {
			w.c.Probe("get-unbounded")
		}
		if len(want) > 0 && len(want) < len(w.m) {
			w.c.Probe("get-proper-subset")
		}
		if err != nil || !same(canon(got), canon(want)) {
			cls := "bounded"
			if max == -1 {
				cls = "unbounded"
			}
			w.c.Fail("c20.get-range", cls, "Get(%d,%d) returned %v (err %v), reference %v", min, max, canon(got), err, canon(want))
		}
	case "clear":
		err := w.repo.Clear(w.ctx)
		w.c.Event("clear -> %v", err)
		w.m = nil
		w.checkAll("clear")
	case "save":
		err := w.repo.Save(w.ctx)
		w.c.Event("save -> %v", err)
		w.c.Probe("save")
		if err != nil {
			w.c.Fail("c20.save", "error", "Save failed: %s", err)
		}
	case "reload":
		// Save, then a fresh repository loads what was written
		if err := w.repo.Save(w.ctx); err != nil {
			w.c.Fail("c20.save", "error", "Save failed: %s", err)
			return
		}
		nr := bitcoin_reader.NewPeerRepository(w.st, w.path)
		err := nr.Load(w.ctx)
		w.c.Event("save+load -> %v", err)
		w.c.Probe("save+load")
		w.c.Nontrivial()
		if err != nil {
			w.c.Fail("c20.load", "error", "Load of a saved book failed: %s", err)
			return
		}
		w.repo = nr
		w.checkAll("save+load")
	case "load-stale":
		// Load without saving first: the book falls back to what the last Save wrote
		data, ok := w.st.Get(w.path)
		nr := bitcoin_reader.NewPeerRepository(w.st, w.path)
		err := nr.Load(w.ctx)
		w.c.Event("load (no save) -> %v", err)
		if err != nil {
			w.c.Fail("c20.load", "error", "Load failed: %s", err)
			return
		}
		w.repo = nr
		if !ok {
			w.m = nil
		} else {
			w.m = append([]mpeer(nil), w.savedModel[string(data)]...)
		}
		w.checkAll("load")
	case "prefixes":
		w.prefixes(op)
	case "damage":
		w.damage(op)
	default:
		panic("unknown op " + op.K)
	}
	if op.K == "save" || op.K == "reload" || op.K == "prefixes" || op.K == "damage" {
		if data, ok := w.st.Get(w.path); ok {
			w.savedModel[string(data)] = append([]mpeer(nil), w.m...)
		}
	}
}

// loadBytes loads arbitrary bytes into a fresh repository, converting a panic into a failure.
func (w *World) loadBytes(b []byte, what string) (peers []mpeer, err error, ok bool) {
	st := simstore.New()
	st.Put(w.path, b)
	nr := bitcoin_reader.NewPeerRepository(st, w.path)
	ok = true
	func() {
		defer func() {
			if r := recover(); r != nil {
				ok = false
				w.c.Fail("c20.load-never-crashes", core.ClassifyPanic(fmt.Sprint(r)), "Load of %s panicked: %v", what, r)
			}
		}()
		err = nr.Load(w.ctx)
	}()
	if !ok {
		return nil, nil, false
	}
	peers, gerr := w.implPeers(nr, -2147483648, -1)
	if gerr != nil {
		w.c.Fail("c20.get", "error-after-damaged-load", "Get failed after loading %s: %s", what, gerr)
	}
	return peers, err, true
}

// prefixes saves the book and loads EVERY prefix of the saved file (a file cut short at any point).
// Peers fully written before the cut must be kept. Record boundaries are obtained black-box: the
// length of the file Save writes for the first j peers.
func (w *World) prefixes(op Op) {
	if err := w.repo.Save(w.ctx); err != nil {
		w.c.Fail("c20.save", "error", "Save failed: %s", err)
		return
	}
	full, _ := w.st.Get(w.path)
	full = append([]byte(nil), full...)
	// boundaries[j] = file length with j peers
	boundaries := make([]int, len(w.m)+1)
	for j := 0; j <= len(w.m); j++ {
		st := simstore.New()
		r := bitcoin_reader.NewPeerRepository(st, w.path)
		for _, p := range w.m[:j] {
			r.Add(w.ctx, p.addr)
		}
		r.Save(w.ctx)
		b, _ := st.Get(w.path)
		boundaries[j] = len(b)
	}
	var cuts []int
	if len(full) <= 1500 {
		for k := 0; k <= len(full); k++ {
			cuts = append(cuts, k)
		}
	} else {
		// large file (64 KiB address): every cut near every record boundary and the header, plus a stride
		seen := map[int]bool{}
		add := func(k int) {
			if k >= 0 && k <= len(full) && !seen[k] {
				seen[k] = true
				cuts = append(cuts, k)
			}
		}
		for k := 0; k < 40; k++ {
			add(k)
		}
		for _, b := range boundaries {
			for d := -20; d <= 20; d++ {
				add(b + d)
			}
		}
		for k := 0; k <= len(full); k += 997 {
			add(k)
		}
		sort.Ints(cuts)
	}
	w.c.Event("prefixes of saved file: %d bytes, %d peers, %d cuts", len(full), len(w.m), len(cuts))
	w.c.FaultN("file-cut-short", len(cuts))
	w.c.Nontrivial()
	if len(w.m) >= 3 {
		w.c.Probe("prefixes-with>=3-peers")
	}
	for _, k := range cuts {
		peers, _, ok := w.loadBytes(full[:k], fmt.Sprintf("the saved file cut to %d of %d bytes", k, len(full)))
		if !ok {
			return
		}
		complete := 0
		for j := 0; j <= len(w.m); j++ {
			if boundaries[j] <= k {
				complete = j
			}
		}
		if k < boundaries[0] {
			complete = 0
		}
		want := canon(w.m[:complete])
		got := canon(peers)
		if !same(got, want) {
			cls := "lost-complete-peer"
			if len(got) > len(want) {
				cls = "extra-peer"
			}
			w.c.Fail("c20.cut-file-keeps-complete-peers", cls, "file cut to %d of %d bytes (%d peers fully written): loaded %v, want %v", k, len(full), complete, got, want)
			return
		}
	}
}

// damage loads mutated files: A=kind B,C=random
func (w *World) damage(op Op) {
	w.repo.Save(w.ctx)
	full, _ := w.st.Get(w.path)
	b := append([]byte(nil), full...)
	kind := []string{"count-negative", "count-huge", "addrlen-negative", "addrlen-large", "random-bytes", "flip-byte", "version", "count-small"}[op.A%8]
	put32 := func(off int, v uint32) {
		if off+4 <= len(b) {
			binary.LittleEndian.PutUint32(b[off:], v)
		}
	}
	switch kind {
	case "count-negative":
		put32(1, uint32(0x80000000)|uint32(op.B))
	case "count-huge":
		put32(1, 0x7fffffff-uint32(op.B%1000))
	case "count-small":
		put32(1, uint32(op.B%3))
	case "addrlen-negative":
		put32(5, 0xffffffff-uint32(op.B%100000))
	case "addrlen-large":
		// large but far below the worker's address-space limit, so the outcome does not depend on
		// what the process allocated before
		put32(5, uint32(16<<20)+uint32(op.B%(16<<20)))
	case "random-bytes":
		n := op.B % 200
		b = make([]byte, n)
		x := uint32(op.C) | 1
		for i := range b {
			x = x*1664525 + 1013904223
			b[i] = byte(x >> 24)
		}
		if n > 0 && op.C%2 == 0 {
			b[0] = 0 // valid version so that parsing proceeds
		}
	case "flip-byte":
		if len(b) > 0 {
			b[op.B%len(b)] ^= byte(1 + op.C%255)
		}
	case "version":
		if len(b) > 0 {
			b[0] = byte(1 + op.B%255)
		}
	}
	w.c.Event("load damaged file kind=%s len=%d", kind, len(b))
	w.c.Fault("damaged-file:" + kind)
	w.c.Nontrivial()
	w.loadBytes(b, "a damaged file ("+kind+")")
}

func (w *World) gen() Op {
	t := w.c.T
	switch t.Weighted([]int{20, 18, 6, 14, 2, 3, 8, 3, 6, 6, 6}) {
	case 0:
		return Op{K: "add", A: t.Draw(len(w.pool))}
	case 1:
		deltas := []int{1, -1, 1, 5, -5, 2, -2, 2147483647, -2147483648, 0}
		return Op{K: "score", A: t.Draw(len(w.pool)), B: deltas[t.Draw(len(deltas))]}
	case 2:
		return Op{K: "time", A: t.Draw(len(w.pool))}
	case 3:
		bounds := []int{-5, -2, -1, 0, 1, 2, 4, 5, 10, -2147483648, 2147483647}
		max := bounds[t.Draw(len(bounds))]
		if t.Chance(1, 3) {
			max = -1
		}
		return Op{K: "get", A: bounds[t.Draw(len(bounds))], B: max}
	case 4:
		return Op{K: "clear"}
	case 5:
		return Op{K: "save"}
	case 6:
		return Op{K: "reload"}
	case 7:
		return Op{K: "load-stale"}
	case 8:
		return Op{K: "prefixes"}
	case 9:
		return Op{K: "damage", A: t.Draw(8), B: t.Draw(1 << 20), C: t.Draw(1 << 20)}
	default:
		return Op{K: "sleep", A: 1 + t.Draw(7200)}
	}
}

// Run executes one run.
func Run(c *core.Ctx) {
	w := &World{c: c, ctx: logger.ContextWithNoLogger(context.Background()), st: simstore.New(), pool: addressPool(),
		savedModel: map[string][]mpeer{}}
	cfg := Op{K: "config"}
	if c.Script != nil {
		json.Unmarshal(c.Script[0], &cfg)
	} else {
		cfg.A = c.T.Draw(2)
		cfg.B = c.T.Range(3, 40)
	}
	c.Record(cfg)
	if cfg.A == 1 {
		w.path = "custom/peers-file"
	}
	w.repo = bitcoin_reader.NewPeerRepository(w.st, w.path)
	if w.path == "" {
		w.path = "peers"
	}
	if err := w.repo.Load(w.ctx); err != nil {
		c.Fail("c20.load", "empty-storage", "Load on empty storage failed: %s", err)
	}
	c.Event("config path=%q steps=%d", w.path, cfg.B)
	if c.Script != nil {
		for _, raw := range c.Script[1:] {
			var op Op
			if err := json.Unmarshal(raw, &op); err != nil {
				panic(err)
			}
			w.exec(op)
		}
		return
	}
	for i := 0; i < cfg.B; i++ {
		w.exec(w.gen())
	}
}
