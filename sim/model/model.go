// Package model holds the small executable reference models used as oracles. Nothing here calls into
// /repo/headers: header hashes are computed with sha256 over an own serialisation, work from compact
// bits by the published formula, merkle roots and paths by the textbook algorithm.
package model

import (
	"crypto/sha256"
	"encoding/binary"
	"math/big"

	"github.com/tokenized/pkg/bitcoin"
	"github.com/tokenized/pkg/wire"
)

type Hash = bitcoin.Hash32

func DoubleSHA(b []byte) Hash {
	a := sha256.Sum256(b)
	return Hash(sha256.Sum256(a[:]))
}

// HeaderBytes is the 80 byte wire form of a header, serialised here (not by the wire package).
func HeaderBytes(h *wire.BlockHeader) []byte {
	b := make([]byte, 80)
	binary.LittleEndian.PutUint32(b[0:], uint32(h.Version))
	copy(b[4:36], h.PrevBlock[:])
	copy(b[36:68], h.MerkleRoot[:])
	binary.LittleEndian.PutUint32(b[68:], h.Timestamp)
	binary.LittleEndian.PutUint32(b[72:], h.Bits)
	binary.LittleEndian.PutUint32(b[76:], h.Nonce)
	return b
}

func HeaderHash(h *wire.BlockHeader) Hash { return DoubleSHA(HeaderBytes(h)) }

var two256 = new(big.Int).Lsh(big.NewInt(1), 256)

// CompactToTarget decodes compact bits the way consensus does. ok is false for negative or
// overflowing encodings and for a zero target.
func CompactToTarget(bits uint32) (*big.Int, bool) {
	exp := bits >> 24
	mant := bits & 0x007fffff
	neg := bits&0x00800000 != 0
	t := new(big.Int)
	if exp <= 3 {
		mant >>= 8 * (3 - exp)
		t.SetUint64(uint64(mant))
	} else {
		t.SetUint64(uint64(mant))
		t.Lsh(t, uint(8*(exp-3)))
	}
	if mant == 0 {
		return t, false
	}
	if neg {
		return t, false
	}
	if t.BitLen() > 256 {
		return t, false
	}
	return t, true
}

// TargetToCompact encodes a target as canonical compact bits.
func TargetToCompact(t *big.Int) uint32 {
	size := uint32((t.BitLen() + 7) / 8)
	var mant uint32
	if size <= 3 {
		mant = uint32(t.Uint64()) << (8 * (3 - size))
	} else {
		mant = uint32(new(big.Int).Rsh(t, uint(8*(size-3))).Uint64())
	}
	if mant&0x00800000 != 0 {
		mant >>= 8
		size++
	}
	return size<<24 | mant
}

// WorkForTarget is floor(2^256 / (target+1)).
func WorkForTarget(t *big.Int) *big.Int {
	d := new(big.Int).Add(t, big.NewInt(1))
	return new(big.Int).Div(two256, d)
}

func WorkForBits(bits uint32) *big.Int {
	t, _ := CompactToTarget(bits)
	return WorkForTarget(t)
}

// MerkleRoot computes the bitcoin merkle root of txids (last element duplicated on odd levels).
func MerkleRoot(txids []Hash) Hash {
	if len(txids) == 0 {
		return Hash{}
	}
	level := append([]Hash(nil), txids...)
	for len(level) > 1 {
		if len(level)%2 == 1 {
			level = append(level, level[len(level)-1])
		}
		next := make([]Hash, len(level)/2)
		for i := range next {
			var buf [64]byte
			copy(buf[:32], level[2*i][:])
			copy(buf[32:], level[2*i+1][:])
			next[i] = DoubleSHA(buf[:])
		}
		level = next
	}
	return level[0]
}

// MerklePath returns the sibling hashes from leaf to root for position index; dup[i] is true where the
// sibling is the node itself (odd width level).
func MerklePath(txids []Hash, index int) (path []Hash, dup []bool) {
	level := append([]Hash(nil), txids...)
	for len(level) > 1 {
		odd := len(level)%2 == 1
		if odd {
			level = append(level, level[len(level)-1])
		}
		sib := index ^ 1
		path = append(path, level[sib])
		dup = append(dup, odd && sib == len(level)-1 && index == len(level)-2)
		next := make([]Hash, len(level)/2)
		for i := range next {
			var buf [64]byte
			copy(buf[:32], level[2*i][:])
			copy(buf[32:], level[2*i+1][:])
			next[i] = DoubleSHA(buf[:])
		}
		level = next
		index /= 2
	}
	return path, dup
}

// RootFromPath recomputes a merkle root from a leaf, its index and its path.
func RootFromPath(leaf Hash, index int, path []Hash) Hash {
	cur := leaf
	for _, s := range path {
		var buf [64]byte
		if index%2 == 0 {
			copy(buf[:32], cur[:])
			copy(buf[32:], s[:])
		} else {
			copy(buf[:32], s[:])
			copy(buf[32:], cur[:])
		}
		cur = DoubleSHA(buf[:])
		index /= 2
	}
	return cur
}

// Node is one header of the reference block tree.
type Node struct {
	Hash     Hash
	Parent   *Node
	Height   int
	Work     *big.Int // cumulative work including this header
	Header   *wire.BlockHeader
	Txids    []Hash
	Children []*Node
	Serial   int // mint order

	Accepted bool // the implementation accepted it (and it was not discarded by an explicit mark)
	// EverAccepted stays true once the header was accepted, even if it was legitimately forgotten.
	EverAccepted bool
	// MemOpt: may legitimately be absent from memory (pruned best-chain history). It must still be
	// known by height and by hash.
	MemOpt bool
	// Forget: may legitimately be entirely unknown (side branch beyond the retained depth at a load).
	Forget bool
}

// Tree is the reference block tree: every header ever minted by the simulated miners.
type Tree struct {
	Genesis *Node
	ByHash  map[Hash]*Node
	All     []*Node // mint order; deterministic iteration
	next    int
}

func NewTree(genesis *wire.BlockHeader) *Tree {
	g := &Node{Hash: HeaderHash(genesis), Height: 0, Work: WorkForBits(genesis.Bits), Header: genesis,
		Accepted: true, EverAccepted: true}
	t := &Tree{Genesis: g, ByHash: map[Hash]*Node{g.Hash: g}, next: 1}
	t.All = append(t.All, g)
	return t
}

// NewRooted starts a tree at an arbitrary header with a given height and cumulative work.
func NewRooted(h *wire.BlockHeader, height int, work *big.Int) *Tree {
	g := &Node{Hash: HeaderHash(h), Height: height, Work: new(big.Int).Set(work), Header: h, Accepted: true, EverAccepted: true}
	t := &Tree{Genesis: g, ByHash: map[Hash]*Node{g.Hash: g}, next: 1}
	t.All = append(t.All, g)
	return t
}

// Mint adds a header whose parent is already in the tree.
func (t *Tree) Mint(parent *Node, h *wire.BlockHeader, txids []Hash) *Node {
	hash := HeaderHash(h)
	if n, ok := t.ByHash[hash]; ok {
		return n
	}
	n := &Node{Hash: hash, Parent: parent, Height: parent.Height + 1, Header: h, Txids: txids,
		Serial: t.next}
	t.next++
	n.Work = new(big.Int).Add(parent.Work, WorkForBits(h.Bits))
	parent.Children = append(parent.Children, n)
	t.ByHash[hash] = n
	t.All = append(t.All, n)
	return n
}

// IsAncestorOrEqual reports whether a is b or an ancestor of b.
func IsAncestorOrEqual(a, b *Node) bool {
	for b != nil && b.Height >= a.Height {
		if b == a {
			return true
		}
		b = b.Parent
	}
	return false
}

// AncestorAt returns the ancestor of n at the given height (n itself if equal), or nil.
func AncestorAt(n *Node, height int) *Node {
	for n != nil && n.Height > height {
		n = n.Parent
	}
	if n != nil && n.Height == height {
		return n
	}
	return nil
}

// ForkPoint is the last common ancestor of a and b.
func ForkPoint(a, b *Node) *Node {
	for a != b {
		if a == nil || b == nil {
			return nil
		}
		if a.Height >= b.Height {
			a = a.Parent
		} else {
			b = b.Parent
		}
	}
	return a
}

// ---------------------------------------------------------------------------------------------
// Reference difficulty adjustment (the network's 144 block algorithm, written from its published
// description): median-of-three endpoints chosen with the network's compare-and-swap order, signed
// time span clamped to [72,288] blocks' worth, projected work = work*600/span, target =
// (2^256 - work)/work, capped at the proof-of-work limit, re-encoded as compact bits.

var PowLimit, _ = CompactToTarget(0x1d00ffff)

// suitable picks the median by timestamp of n, its parent and grandparent exactly as the network does.
func suitable(n *Node) *Node {
	b := [3]*Node{n.Parent.Parent, n.Parent, n}
	if b[0].Header.Timestamp > b[2].Header.Timestamp {
		b[0], b[2] = b[2], b[0]
	}
	if b[0].Header.Timestamp > b[1].Header.Timestamp {
		b[0], b[1] = b[1], b[0]
	}
	if b[1].Header.Timestamp > b[2].Header.Timestamp {
		b[1], b[2] = b[2], b[1]
	}
	return b[1]
}

// RequiredBits is the bits value the network requires for the child of prev. ok is false when fewer
// than 147 ancestors are available.
func RequiredBits(prev *Node) (uint32, bool) {
	first := prev
	for i := 0; i < 144; i++ {
		if first == nil {
			return 0, false
		}
		first = first.Parent
	}
	if first == nil || first.Parent == nil || first.Parent.Parent == nil {
		return 0, false
	}
	last := suitable(prev)
	start := suitable(first)
	work := new(big.Int).Sub(last.Work, start.Work)
	work.Mul(work, big.NewInt(600))
	span := int64(last.Header.Timestamp) - int64(start.Header.Timestamp)
	if span > 288*600 {
		span = 288 * 600
	}
	if span < 72*600 {
		span = 72 * 600
	}
	work.Div(work, big.NewInt(span))
	if work.Sign() <= 0 {
		return TargetToCompact(PowLimit), true
	}
	target := new(big.Int).Sub(two256, work)
	target.Div(target, work)
	if target.Cmp(PowLimit) > 0 {
		target.Set(PowLimit)
	}
	return TargetToCompact(target), true
}

// HashMeetsTarget: the header hash, as a little endian number, does not exceed the target.
func HashMeetsTarget(h Hash, target *big.Int) bool {
	var be [32]byte
	for i := range h {
		be[31-i] = h[i]
	}
	return new(big.Int).SetBytes(be[:]).Cmp(target) <= 0
}
