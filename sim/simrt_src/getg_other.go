//go:build !amd64

package simrt

// no assembly for this architecture: goid falls back to parsing the stack header
func getg() uintptr { return 0 }
