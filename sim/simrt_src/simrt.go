// Package simrt is the runtime of Engine F. It is copied into a scratch copy of the repository under
// test (as github.com/tokenized/bitcoin_reader/simrt) whose selected source files were rewritten by
// simrewrite: every statement is preceded by Yield, and every mutex Lock/Unlock goes through Lock/Unlock
// here. With a scheduler installed, an instrumented goroutine runs only between being resumed by the
// simulation driver and its next Yield (or a real, durable block on a channel or timer), so which
// goroutine executes the next statement is the driver's — the tape's — decision. No goroutine ever
// waits on a real mutex: a failed TryLock parks the goroutine as a lock waiter, so goroutines that hold
// locks can be parked and the synctest bubble still goes idle. Without a scheduler every function here
// degrades to the plain operation.
package simrt

import (
	"runtime"
	"sync"
	"sync/atomic"
)

const (
	KindYield = iota
	KindLock
)

// Waiter is one parked goroutine.
type Waiter struct {
	Site  string
	Kind  int
	Seq   uint64
	Epoch uint64 // unlock epoch when it parked (lock waiters)
	ch    chan struct{}
}

// Sched is the scheduler state shared by the instrumented goroutines and the driver.
type Sched struct {
	mu      sync.Mutex
	waiting []*Waiter
	seq     uint64
	epoch   atomic.Uint64
	// driver is true while the driver itself calls into instrumented code: its yields do not park.
	driver atomic.Bool
	off    atomic.Bool
	Steps  uint64
	// SiteHits counts resumptions per site for interleaving statistics (hash only).
	Hash uint64
}

var cur atomic.Pointer[Sched]

// Install makes s the active scheduler (nil uninstalls).
func Install(s *Sched) { cur.Store(s) }

func New() *Sched { return &Sched{Hash: 1469598103934665603} }

func (s *Sched) park(site string, kind int) {
	s.mu.Lock()
	s.seq++
	w := &Waiter{Site: site, Kind: kind, Seq: s.seq, Epoch: s.epoch.Load(), ch: make(chan struct{})}
	s.waiting = append(s.waiting, w)
	s.mu.Unlock()
	<-w.ch
}

// Yield is inserted before every statement of the instrumented files.
func Yield(site string) {
	s := cur.Load()
	if s == nil || s.off.Load() || s.driver.Load() {
		return
	}
	s.park(site, KindYield)
}

// Lock replaces x.Lock() / x.RLock(): try is x.TryLock / x.TryRLock.
func Lock(try func() bool, site string) {
	for {
		if try() {
			return
		}
		s := cur.Load()
		if s == nil || s.off.Load() {
			runtime.Gosched()
			continue
		}
		if s.driver.Load() {
			// the driver must never wait; it only calls in when everything is quiescent
			panic("simrt: driver would block on a lock held by a parked goroutine at " + site)
		}
		s.park(site, KindLock)
	}
}

// Unlock replaces x.Unlock() / x.RUnlock().
func Unlock(unlock func()) {
	unlock()
	if s := cur.Load(); s != nil {
		s.epoch.Add(1)
	}
}

// Waiters returns the parked goroutines (oldest first).
func (s *Sched) Waiters() []*Waiter {
	s.mu.Lock()
	defer s.mu.Unlock()
	return append([]*Waiter(nil), s.waiting...)
}

// Runnable reports whether resuming w can make progress now.
func (s *Sched) Runnable(w *Waiter) bool {
	return w.Kind == KindYield || s.epoch.Load() != w.Epoch
}

// Resume lets one parked goroutine continue.
func (s *Sched) Resume(w *Waiter) {
	s.mu.Lock()
	for i, x := range s.waiting {
		if x == w {
			s.waiting = append(s.waiting[:i], s.waiting[i+1:]...)
			break
		}
	}
	s.Steps++
	h := s.Hash
	for i := 0; i < len(w.Site); i++ {
		h = (h ^ uint64(w.Site[i])) * 1099511628211
	}
	s.Hash = h
	s.mu.Unlock()
	close(w.ch)
}

// DriverCall runs f on the driver goroutine without parking at its yields.
func (s *Sched) DriverCall(f func()) {
	s.driver.Store(true)
	defer s.driver.Store(false)
	f()
}

// Off stops scheduling: parked goroutines are released and nothing parks any more (end of run).
func (s *Sched) Off() {
	s.off.Store(true)
	s.mu.Lock()
	l := s.waiting
	s.waiting = nil
	s.mu.Unlock()
	for _, w := range l {
		close(w.ch)
	}
}
