// Package simrt is the runtime of Engine F. It is copied into a scratch copy of the repository under
// test (as github.com/tokenized/bitcoin_reader/simrt) whose selected source files were rewritten by
// simrewrite: every statement is preceded by Yield, and every mutex Lock/Unlock goes through Lock/Unlock
// here. With a scheduler installed, an instrumented goroutine runs only between being resumed by the
// simulation driver and its next Yield (or a real, durable block on a channel or timer), so which
// goroutine executes the next statement is the driver's — the tape's — decision. No goroutine ever
// waits on a real mutex: a failed TryLock parks the goroutine as a lock waiter, so goroutines that hold
// locks can be parked and the synctest bubble still goes idle. Without a scheduler every function here
// degrades to the plain operation.
package simrt

import (
	"runtime"
	"sync"
	"sync/atomic"
	"unsafe"
)

const (
	KindYield = iota
	KindLock
	KindYieldSync // a yield in front of a synchronisation operation (lock, channel, select, go)
)

// Waiter is one parked goroutine.
type Waiter struct {
	Site  string
	Kind  int
	Seq   uint64
	G     uint64 // goroutine id: identity only ("the goroutine resumed last"), never an ordering
	Epoch uint64 // unlock epoch when it parked (lock waiters)
	ch    chan struct{}
}

// Sched is the scheduler state shared by the instrumented goroutines and the driver.
type Sched struct {
	mu      sync.Mutex
	waiting []*Waiter
	seq     uint64
	epoch   atomic.Uint64
	// driver is non-zero (a goroutine id) while the driver itself calls into instrumented code: its
	// yields do not park.
	driver atomic.Uint64
	// Notify, if set, receives a (non-blocking) signal whenever a goroutine parks: the driver's pump
	// waits on it while simulated time passes.
	Notify chan struct{}
	// DriverWait, set by the driver, resumes one other goroutine; false when none can run.
	DriverWait func() bool
	// SelectSeed and selCount decide the poll order of rewritten select statements.
	SelectSeed uint64
	selCount   map[string]uint64
	off        atomic.Bool
	Steps      uint64
	// SiteHits counts resumptions per site for interleaving statistics (hash only).
	Hash uint64
}

var cur atomic.Pointer[Sched]

// Install makes s the active scheduler (nil uninstalls).
func Install(s *Sched) { cur.Store(s) }

func New() *Sched { return &Sched{Hash: 1469598103934665603} }

func (s *Sched) park(site string, kind int, epoch uint64) {
	g := goid()
	s.mu.Lock()
	s.seq++
	w := &Waiter{Site: site, Kind: kind, Seq: s.seq, G: g, Epoch: epoch, ch: make(chan struct{})}
	s.waiting = append(s.waiting, w)
	n := s.Notify
	s.mu.Unlock()
	if n != nil {
		select {
		case n <- struct{}{}:
		default:
		}
	}
	<-w.ch
}

// Yield is inserted before every statement of the instrumented files.
func Yield(site string) {
	s := cur.Load()
	if s == nil || s.off.Load() || s.isDriver() {
		return
	}
	s.park(site, KindYield, 0)
}

// YieldSync is Yield in front of a synchronisation operation.
func YieldSync(site string) {
	s := cur.Load()
	if s == nil || s.off.Load() || s.isDriver() {
		return
	}
	s.park(site, KindYieldSync, 0)
}

// Lock replaces x.Lock() / x.RLock(): try is x.TryLock / x.TryRLock.
func Lock(try func() bool, site string) {
	for {
		// the unlock epoch is read BEFORE the attempt: an unlock between the failed attempt and the
		// parking then makes the waiter runnable at once instead of being missed
		var epoch uint64
		s := cur.Load()
		if s != nil {
			epoch = s.epoch.Load()
		}
		if try() {
			return
		}
		if s == nil || s.off.Load() {
			runtime.Gosched()
			continue
		}
		if s.isDriver() {
			// the driver is the scheduler: instead of waiting it runs other goroutines (one step per
			// attempt) until the lock is free
			if s.DriverWait == nil || !s.DriverWait() {
				panic("simrt: driver would block for ever on a lock at " + site)
			}
			continue
		}
		s.park(site, KindLock, epoch)
	}
}

// Unlock replaces x.Unlock() / x.RUnlock().
func Unlock(unlock func()) {
	unlock()
	if s := cur.Load(); s != nil {
		s.epoch.Add(1)
	}
}

// SetNotify installs or removes the park signal channel.
func (s *Sched) SetNotify(n chan struct{}) {
	s.mu.Lock()
	s.Notify = n
	s.mu.Unlock()
}

// Waiters returns the parked goroutines (oldest first).
func (s *Sched) Waiters() []*Waiter {
	s.mu.Lock()
	defer s.mu.Unlock()
	return append([]*Waiter(nil), s.waiting...)
}

// Runnable reports whether resuming w can make progress now.
func (s *Sched) Runnable(w *Waiter) bool {
	return w.Kind != KindLock || s.epoch.Load() != w.Epoch
}

// Resume lets one parked goroutine continue.
func (s *Sched) Resume(w *Waiter) {
	s.mu.Lock()
	for i, x := range s.waiting {
		if x == w {
			s.waiting = append(s.waiting[:i], s.waiting[i+1:]...)
			break
		}
	}
	s.Steps++
	h := s.Hash
	for i := 0; i < len(w.Site); i++ {
		h = (h ^ uint64(w.Site[i])) * 1099511628211
	}
	s.Hash = h
	s.mu.Unlock()
	close(w.ch)
}

// DriverCall runs f on the driver goroutine without parking at its yields.
func (s *Sched) DriverCall(f func()) {
	prev := s.driver.Load()
	s.driver.Store(goid())
	defer s.driver.Store(prev)
	f()
}

// SetDriver marks the calling goroutine as the driver for the whole run: whatever it calls in the
// instrumented code runs without parking (it is the scheduler, not a scheduled party), and a lock held by
// a parked goroutine makes it run the others until the lock is free.
func (s *Sched) SetDriver() { s.driver.Store(goid()) }

// isDriver: the calling goroutine is the driver inside DriverCall.
func (s *Sched) isDriver() bool {
	d := s.driver.Load()
	return d != 0 && d == goid()
}

// goid returns the id of the calling goroutine. The fast path reads it from the runtime's g structure
// (getg is three instructions of assembly) at an offset that init found by comparing with the id
// printed in the stack header and confirmed on a second goroutine; if that calibration fails the
// slow path parses the stack header every time.
func goid() uint64 {
	if goidOffset != 0 {
		return *(*uint64)(unsafe.Pointer(getg() + goidOffset))
	}
	return goidSlow()
}

var goidOffset uintptr

func goidSlow() uint64 {
	var buf [40]byte
	n := runtime.Stack(buf[:], false)
	var id uint64
	for _, c := range buf[len("goroutine "):n] {
		if c < '0' || c > '9' {
			break
		}
		id = id*10 + uint64(c-'0')
	}
	return id
}

func init() {
	if getg() == 0 {
		return
	}
	candidates := func() map[uintptr]bool {
		id, g := goidSlow(), getg()
		m := map[uintptr]bool{}
		for off := uintptr(0); off < 512; off += 8 {
			if *(*uint64)(unsafe.Pointer(g + off)) == id {
				m[off] = true
			}
		}
		return m
	}
	a := candidates()
	ch := make(chan map[uintptr]bool)
	for i := 0; i < 3; i++ { // more goroutines: different ids
		go func() { ch <- candidates() }()
		b := <-ch
		for off := range a {
			if !b[off] {
				delete(a, off)
			}
		}
	}
	if len(a) == 1 {
		for off := range a {
			goidOffset = off
		}
	}
}

// SelectOrder returns the order in which a rewritten select statement with n communication clauses
// polls its cases before blocking: a permutation derived from the run's SelectSeed, the site and how
// often this site was reached. nil (no polling, the runtime decides) without a scheduler.
func SelectOrder(n int, site string) []int {
	s := cur.Load()
	if s == nil || s.off.Load() || s.isDriver() {
		return nil
	}
	s.mu.Lock()
	if s.selCount == nil {
		s.selCount = map[string]uint64{}
	}
	cnt := s.selCount[site]
	s.selCount[site] = cnt + 1
	s.mu.Unlock()
	h := s.SelectSeed ^ 0x9e3779b97f4a7c15
	for i := 0; i < len(site); i++ {
		h = (h ^ uint64(site[i])) * 1099511628211
	}
	h = (h ^ cnt) * 1099511628211
	ord := make([]int, n)
	for i := range ord {
		ord[i] = i
	}
	for i := n - 1; i > 0; i-- {
		h ^= h >> 33
		h *= 0xff51afd7ed558ccd
		h ^= h >> 33
		j := int(h % uint64(i+1))
		ord[i], ord[j] = ord[j], ord[i]
	}
	return ord
}

// Pick returns c when the poll at this level is the turn of clause idx, and the zero value (a nil
// channel, never ready) otherwise.
func Pick[T any](c T, ord []int, level, idx int) T {
	if ord != nil && ord[level] == idx {
		return c
	}
	var zero T
	return zero
}

// Off stops scheduling: parked goroutines are released and nothing parks any more (end of run).
func (s *Sched) Off() {
	s.off.Store(true)
	s.mu.Lock()
	l := s.waiting
	s.waiting = nil
	s.mu.Unlock()
	for _, w := range l {
		close(w.ch)
	}
}
