package simrt

// getg returns the address of the runtime's g structure of the calling goroutine (getg_amd64.s).
func getg() uintptr
