// Package tape is the single source of every random decision of a simulated run.
//
// In search mode the tape is the output of one PRNG seeded from (VERIF_SEED, run index); every value
// handed out is recorded (already reduced modulo the number of options, so tapes stay readable). In
// replay mode the values come from a recorded list and continue with zeros when it is exhausted. A
// run is therefore a pure function of (tape, code); any edited tape is a valid run, which is what the
// minimiser relies on. By convention option 0 is always the simplest choice (in order delivery, no
// fault, no preemption) so that zeroing entries simplifies a run.
package tape

import (
	"math/rand/v2"
)

type Tape struct {
	rng    *rand.Rand
	replay []uint32
	pos    int
	rec    []uint32
}

func NewSeeded(seed, index uint64) *Tape {
	return &Tape{rng: rand.New(rand.NewPCG(seed, index*0x9e3779b97f4a7c15+1))}
}

func NewReplay(values []uint32) *Tape {
	c := make([]uint32, len(values))
	copy(c, values)
	return &Tape{replay: c}
}

// Draw returns a value in [0, n). n < 1 is treated as 1.
func (t *Tape) Draw(n int) int {
	if n < 1 {
		n = 1
	}
	var v uint32
	if t.rng != nil {
		v = t.rng.Uint32() % uint32(n)
	} else {
		if t.pos < len(t.replay) {
			v = t.replay[t.pos] % uint32(n)
		}
	}
	t.pos++
	t.rec = append(t.rec, v)
	return int(v)
}

// Chance is true with probability num/den. A zero tape entry means false (unless num >= den).
func (t *Tape) Chance(num, den int) bool {
	if num <= 0 {
		t.Draw(den)
		return false
	}
	return t.Draw(den) >= den-num
}

// Range returns a value in [lo, hi].
func (t *Tape) Range(lo, hi int) int {
	if hi < lo {
		hi = lo
	}
	return lo + t.Draw(hi-lo+1)
}

// Weighted picks an index with probability proportional to its weight. A zero tape entry picks the
// first option with non-zero weight.
func (t *Tape) Weighted(weights []int) int {
	total := 0
	for _, w := range weights {
		if w > 0 {
			total += w
		}
	}
	if total == 0 {
		t.Draw(1)
		return 0
	}
	v := t.Draw(total)
	for i, w := range weights {
		if w <= 0 {
			continue
		}
		if v < w {
			return i
		}
		v -= w
	}
	return len(weights) - 1
}

// Bytes fills b from the tape, four bytes per entry.
func (t *Tape) Bytes(b []byte) {
	for i := 0; i < len(b); i += 4 {
		v := uint32(t.Draw(1 << 30))
		for j := 0; j < 4 && i+j < len(b); j++ {
			b[i+j] = byte(v >> (8 * j))
		}
	}
}

// RawStream regenerates the first k raw PRNG outputs of a seeded tape. Replaying them (each is reduced
// modulo the number of options when drawn) reproduces the seeded run; the supervisor uses this for
// runs whose worker process died before it could return its recorded tape.
func RawStream(seed, index uint64, k int) []uint32 {
	rng := rand.New(rand.NewPCG(seed, index*0x9e3779b97f4a7c15+1))
	out := make([]uint32, k)
	for i := range out {
		out[i] = rng.Uint32()
	}
	return out
}

// Recorded returns the values handed out so far.
func (t *Tape) Recorded() []uint32 {
	c := make([]uint32, len(t.rec))
	copy(c, t.rec)
	return c
}

// Consumed is the number of draws so far.
func (t *Tape) Consumed() int { return t.pos }
