// simcheck is built as a test binary (go test -c) because Engine G runs the code under test inside
// testing/synctest bubbles, which need a *testing.T. TestMain dispatches: supervisor commands run
// directly; the worker runs inside TestWorker so that it owns a T.
package main

import (
	"flag"
	"os"
	"testing"

	"verif/sim/core"
	_ "verif/sim/props"
)

var savedArgs []string

func verifDir() string {
	dir := os.Getenv("VERIF_DIR")
	if dir == "" {
		dir = "/verif"
	}
	return dir
}

func TestMain(m *testing.M) {
	savedArgs = append([]string(nil), os.Args...)
	if len(os.Args) >= 2 && os.Args[1] == "worker" {
		os.Args = []string{os.Args[0], "-test.run=^TestWorker$", "-test.timeout=0", "-test.v=false"}
		flag.Parse()
		os.Exit(m.Run())
	}
	os.Exit(core.Main(verifDir(), savedArgs[1:]))
}

func TestWorker(t *testing.T) {
	if len(savedArgs) < 5 || savedArgs[1] != "worker" {
		t.Skip("not a worker invocation")
	}
	core.WorkerT = t
	if rc := core.Main(verifDir(), savedArgs[1:]); rc != 0 {
		os.Exit(rc)
	}
}
