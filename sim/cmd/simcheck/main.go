package main

import (
	"os"

	"verif/sim/core"
	_ "verif/sim/props"
)

func main() {
	dir := os.Getenv("VERIF_DIR")
	if dir == "" {
		dir = "/verif"
	}
	os.Exit(core.Main(dir))
}
