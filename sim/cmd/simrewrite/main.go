// simrewrite instruments Go source files of a scratch copy of the repository under test for Engine F:
//   - x.Lock() / x.RLock()            -> simrt.Lock(x.TryLock / x.TryRLock, "file:line")
//   - x.Unlock() / x.RUnlock()        -> simrt.Unlock(x.Unlock / x.RUnlock)   (also in defer statements)
//   - simrt.Yield("file:line") is inserted before every statement of every block, case and comm clause
//
// The rewrite is syntactic (go/ast, no type information): in the instrumented files every zero-argument
// method call named Lock, RLock, Unlock or RUnlock is a sync.Mutex / sync.RWMutex operation. If a file
// does not parse or the result does not format, the tool fails loudly (exit 2).
//
// usage: simrewrite <import path of simrt> <file.go>...
package main

import (
	"bytes"
	"fmt"
	"go/ast"
	"go/format"
	"go/parser"
	"go/token"
	"os"
	"path/filepath"
	"strconv"
)

func main() {
	if len(os.Args) < 3 {
		fmt.Fprintln(os.Stderr, "usage: simrewrite <simrt import path> <file.go>...")
		os.Exit(2)
	}
	simrtPath := os.Args[1]
	for _, file := range os.Args[2:] {
		if err := rewrite(simrtPath, file); err != nil {
			fmt.Fprintf(os.Stderr, "simrewrite: %s: %v\n", file, err)
			os.Exit(2)
		}
	}
}

func rewrite(simrtPath, file string) error {
	fset := token.NewFileSet()
	f, err := parser.ParseFile(fset, file, nil, parser.SkipObjectResolution)
	if err != nil {
		return err
	}
	base := filepath.Base(file)
	site := func(n ast.Node) *ast.BasicLit {
		p := fset.Position(n.Pos())
		return &ast.BasicLit{Kind: token.STRING, Value: strconv.Quote(fmt.Sprintf("%s:%d", base, p.Line))}
	}
	sel := func(name string) ast.Expr {
		return &ast.SelectorExpr{X: ast.NewIdent("simrt"), Sel: ast.NewIdent(name)}
	}
	locks, yields := 0, 0

	// yields before every statement
	var addYields func(list []ast.Stmt) []ast.Stmt
	addYields = func(list []ast.Stmt) []ast.Stmt {
		out := make([]ast.Stmt, 0, 2*len(list))
		for _, st := range list {
			switch st.(type) {
			case *ast.CaseClause, *ast.CommClause:
				// the body of a switch or select: statements are not allowed between its clauses
			case *ast.LabeledStmt, *ast.DeclStmt, *ast.EmptyStmt:
				// a yield before a labelled statement would detach the label from its loop
			default:
				yields++
				out = append(out, &ast.ExprStmt{X: &ast.CallExpr{Fun: sel("Yield"), Args: []ast.Expr{site(st)}}})
			}
			out = append(out, st)
		}
		return out
	}
	ast.Inspect(f, func(n ast.Node) bool {
		switch b := n.(type) {
		case *ast.BlockStmt:
			b.List = addYields(b.List)
		case *ast.CaseClause:
			b.Body = addYields(b.Body)
		case *ast.CommClause:
			b.Body = addYields(b.Body)
		}
		return true
	})

	// mutex calls
	mutexCall := func(call *ast.CallExpr) ast.Expr {
		se, ok := call.Fun.(*ast.SelectorExpr)
		if !ok || len(call.Args) != 0 {
			return nil
		}
		switch se.Sel.Name {
		case "Lock":
			locks++
			return &ast.CallExpr{Fun: sel("Lock"), Args: []ast.Expr{&ast.SelectorExpr{X: se.X, Sel: ast.NewIdent("TryLock")}, site(call)}}
		case "RLock":
			locks++
			return &ast.CallExpr{Fun: sel("Lock"), Args: []ast.Expr{&ast.SelectorExpr{X: se.X, Sel: ast.NewIdent("TryRLock")}, site(call)}}
		case "Unlock", "RUnlock":
			locks++
			return &ast.CallExpr{Fun: sel("Unlock"), Args: []ast.Expr{&ast.SelectorExpr{X: se.X, Sel: ast.NewIdent(se.Sel.Name)}}}
		}
		return nil
	}
	ast.Inspect(f, func(n ast.Node) bool {
		switch s := n.(type) {
		case *ast.ExprStmt:
			if call, ok := s.X.(*ast.CallExpr); ok {
				if r := mutexCall(call); r != nil {
					s.X = r
				}
			}
		case *ast.DeferStmt:
			if r := mutexCall(s.Call); r != nil {
				s.Call = r.(*ast.CallExpr)
			}
		}
		return true
	})

	// import
	imp := &ast.ImportSpec{Path: &ast.BasicLit{Kind: token.STRING, Value: strconv.Quote(simrtPath)}}
	added := false
	for _, d := range f.Decls {
		if gd, ok := d.(*ast.GenDecl); ok && gd.Tok == token.IMPORT {
			gd.Specs = append(gd.Specs, imp)
			if !gd.Lparen.IsValid() {
				gd.Lparen = gd.Pos()
			}
			added = true
			break
		}
	}
	if !added {
		f.Decls = append([]ast.Decl{&ast.GenDecl{Tok: token.IMPORT, Specs: []ast.Spec{imp}}}, f.Decls...)
	}
	f.Imports = append(f.Imports, imp)

	var buf bytes.Buffer
	if err := format.Node(&buf, fset, f); err != nil {
		return err
	}
	if err := os.WriteFile(file, buf.Bytes(), 0o644); err != nil {
		return err
	}
	fmt.Printf("simrewrite: %s: %d mutex operations, %d yields\n", base, locks, yields)
	return nil
}
