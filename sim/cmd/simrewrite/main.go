// simrewrite instruments Go source files of a scratch copy of the repository under test for Engine F:
//   - x.Lock() / x.RLock()            -> simrt.Lock(x.TryLock / x.TryRLock, "file:line")
//   - x.Unlock() / x.RUnlock()        -> simrt.Unlock(x.Unlock / x.RUnlock)   (also in defer statements)
//   - simrt.Yield("file:line") is inserted before every statement of every block, case and comm clause
//   - a select with two or more communication clauses is preceded by non-blocking polls of its cases,
//     one at a time in the order simrt.SelectOrder returns (see below)
//
// The rewrite is syntactic (go/ast, no type information): in the instrumented files every zero-argument
// method call named Lock, RLock, Unlock or RUnlock is a sync.Mutex / sync.RWMutex operation. If a file
// does not parse or the result does not format, the tool fails loudly (exit 2).
//
// usage: simrewrite <import path of simrt> <file.go>...
package main

import (
	"bytes"
	"fmt"
	"go/ast"
	"go/format"
	"go/parser"
	"go/token"
	"os"
	"path/filepath"
	"strconv"
)

func main() {
	if len(os.Args) < 3 {
		fmt.Fprintln(os.Stderr, "usage: simrewrite <simrt import path> <file.go>...")
		os.Exit(2)
	}
	simrtPath := os.Args[1]
	for _, file := range os.Args[2:] {
		if err := rewrite(simrtPath, file); err != nil {
			fmt.Fprintf(os.Stderr, "simrewrite: %s: %v\n", file, err)
			os.Exit(2)
		}
	}
}

// isSyncStmt: the statement is a mutex operation, a channel send or receive, a select or a go
// statement. Delaying a goroutine right before such a statement is what exposes a check-then-act gap, so
// the scheduler prefers these points for preemptions and stalls.
func isSyncStmt(st ast.Stmt) bool {
	isMutexCall := func(e ast.Expr) bool {
		call, ok := e.(*ast.CallExpr)
		if !ok || len(call.Args) != 0 {
			return false
		}
		se, ok := call.Fun.(*ast.SelectorExpr)
		if !ok {
			return false
		}
		switch se.Sel.Name {
		case "Lock", "RLock", "Unlock", "RUnlock":
			return true
		}
		return false
	}
	isRecv := func(e ast.Expr) bool {
		u, ok := e.(*ast.UnaryExpr)
		return ok && u.Op == token.ARROW
	}
	switch x := st.(type) {
	case *ast.ExprStmt:
		return isMutexCall(x.X) || isRecv(x.X)
	case *ast.DeferStmt:
		return false
	case *ast.SendStmt, *ast.SelectStmt, *ast.GoStmt:
		return true
	case *ast.AssignStmt:
		for _, r := range x.Rhs {
			if isRecv(r) {
				return true
			}
		}
	}
	return false
}

func rewrite(simrtPath, file string) error {
	fset := token.NewFileSet()
	f, err := parser.ParseFile(fset, file, nil, parser.SkipObjectResolution)
	if err != nil {
		return err
	}
	base := filepath.Base(file)
	site := func(n ast.Node) *ast.BasicLit {
		p := fset.Position(n.Pos())
		return &ast.BasicLit{Kind: token.STRING, Value: strconv.Quote(fmt.Sprintf("%s:%d", base, p.Line))}
	}
	sel := func(name string) ast.Expr {
		return &ast.SelectorExpr{X: ast.NewIdent("simrt"), Sel: ast.NewIdent(name)}
	}
	locks, yields := 0, 0

	// yields before every statement
	var addYields func(list []ast.Stmt) []ast.Stmt
	addYields = func(list []ast.Stmt) []ast.Stmt {
		out := make([]ast.Stmt, 0, 2*len(list))
		for _, st := range list {
			switch st.(type) {
			case *ast.CaseClause, *ast.CommClause:
				// the body of a switch or select: statements are not allowed between its clauses
			case *ast.LabeledStmt, *ast.DeclStmt, *ast.EmptyStmt:
				// a yield before a labelled statement would detach the label from its loop
			default:
				yields++
				fn := "Yield"
				if isSyncStmt(st) {
					fn = "YieldSync" // a scheduling point in front of a synchronisation operation
				}
				out = append(out, &ast.ExprStmt{X: &ast.CallExpr{Fun: sel(fn), Args: []ast.Expr{site(st)}}})
			}
			out = append(out, st)
		}
		return out
	}
	ast.Inspect(f, func(n ast.Node) bool {
		switch b := n.(type) {
		case *ast.BlockStmt:
			b.List = addYields(b.List)
		case *ast.CaseClause:
			b.Body = addYields(b.Body)
		case *ast.CommClause:
			b.Body = addYields(b.Body)
		}
		return true
	})

	// mutex calls
	mutexCall := func(call *ast.CallExpr) ast.Expr {
		se, ok := call.Fun.(*ast.SelectorExpr)
		if !ok || len(call.Args) != 0 {
			return nil
		}
		switch se.Sel.Name {
		case "Lock":
			locks++
			return &ast.CallExpr{Fun: sel("Lock"), Args: []ast.Expr{&ast.SelectorExpr{X: se.X, Sel: ast.NewIdent("TryLock")}, site(call)}}
		case "RLock":
			locks++
			return &ast.CallExpr{Fun: sel("Lock"), Args: []ast.Expr{&ast.SelectorExpr{X: se.X, Sel: ast.NewIdent("TryRLock")}, site(call)}}
		case "Unlock", "RUnlock":
			locks++
			return &ast.CallExpr{Fun: sel("Unlock"), Args: []ast.Expr{&ast.SelectorExpr{X: se.X, Sel: ast.NewIdent(se.Sel.Name)}}}
		}
		return nil
	}
	ast.Inspect(f, func(n ast.Node) bool {
		switch s := n.(type) {
		case *ast.ExprStmt:
			if call, ok := s.X.(*ast.CallExpr); ok {
				if r := mutexCall(call); r != nil {
					s.X = r
				}
			}
		case *ast.DeferStmt:
			if r := mutexCall(s.Call); r != nil {
				s.Call = r.(*ast.CallExpr)
			}
		}
		return true
	})

	// select statements with two or more communication clauses: which ready case is taken is the Go
	// runtime's (random) decision; the rewrite polls the cases one at a time in an order supplied by
	// simrt (nested non-blocking selects in which all but one channel are nil) before the original,
	// blocking select, so the choice among simultaneously ready cases belongs to the simulation
	selects := 0
	var lists []*[]ast.Stmt
	ast.Inspect(f, func(n ast.Node) bool {
		switch b := n.(type) {
		case *ast.BlockStmt:
			lists = append(lists, &b.List)
		case *ast.CaseClause:
			lists = append(lists, &b.Body)
		case *ast.CommClause:
			lists = append(lists, &b.Body)
		}
		return true
	})
	commWith := func(comm ast.Stmt, ch ast.Expr) ast.Stmt {
		// a copy of the communication statement with its channel expression replaced
		switch c := comm.(type) {
		case *ast.SendStmt:
			return &ast.SendStmt{Chan: ch, Arrow: c.Arrow, Value: c.Value}
		case *ast.ExprStmt:
			u := c.X.(*ast.UnaryExpr)
			return &ast.ExprStmt{X: &ast.UnaryExpr{Op: token.ARROW, X: ch, OpPos: u.OpPos}}
		case *ast.AssignStmt:
			u := c.Rhs[0].(*ast.UnaryExpr)
			return &ast.AssignStmt{Lhs: c.Lhs, Tok: c.Tok, TokPos: c.TokPos, Rhs: []ast.Expr{&ast.UnaryExpr{Op: token.ARROW, X: ch, OpPos: u.OpPos}}}
		}
		panic("unknown communication clause")
	}
	chanOf := func(comm ast.Stmt) ast.Expr {
		switch c := comm.(type) {
		case *ast.SendStmt:
			return c.Chan
		case *ast.ExprStmt:
			if u, ok := c.X.(*ast.UnaryExpr); ok && u.Op == token.ARROW {
				return u.X
			}
		case *ast.AssignStmt:
			if len(c.Rhs) == 1 {
				if u, ok := c.Rhs[0].(*ast.UnaryExpr); ok && u.Op == token.ARROW {
					return u.X
				}
			}
		}
		return nil
	}
	intLit := func(i int) ast.Expr { return &ast.BasicLit{Kind: token.INT, Value: strconv.Itoa(i)} }
	for k := len(lists) - 1; k >= 0; k-- { // inner lists first: bodies are shared between the copies
		list := *lists[k]
		for i, st := range list {
			ss, ok := st.(*ast.SelectStmt)
			if !ok {
				continue
			}
			var comms []*ast.CommClause
			var deflt *ast.CommClause
			good := true
			for _, cl := range ss.Body.List {
				cc := cl.(*ast.CommClause)
				if cc.Comm == nil {
					deflt = cc
					continue
				}
				if chanOf(cc.Comm) == nil {
					good = false
				}
				comms = append(comms, cc)
			}
			if !good || len(comms) < 2 {
				continue
			}
			selects++
			id := selects
			name := func(j int) *ast.Ident { return ast.NewIdent(fmt.Sprintf("_simc%d_%d", id, j)) }
			ord := ast.NewIdent(fmt.Sprintf("_simord%d", id))
			blk := &ast.BlockStmt{}
			for j, cc := range comms {
				blk.List = append(blk.List, &ast.AssignStmt{Lhs: []ast.Expr{name(j)}, Tok: token.DEFINE, Rhs: []ast.Expr{chanOf(cc.Comm)}})
			}
			blk.List = append(blk.List, &ast.AssignStmt{Lhs: []ast.Expr{ord}, Tok: token.DEFINE,
				Rhs: []ast.Expr{&ast.CallExpr{Fun: sel("SelectOrder"), Args: []ast.Expr{intLit(len(comms)), site(ss)}}}})
			// the original select over the evaluated channels
			final := &ast.SelectStmt{Body: &ast.BlockStmt{}}
			for j, cc := range comms {
				final.Body.List = append(final.Body.List, &ast.CommClause{Comm: commWith(cc.Comm, name(j)), Body: cc.Body})
			}
			if deflt != nil {
				final.Body.List = append(final.Body.List, &ast.CommClause{Body: deflt.Body})
			}
			var inner ast.Stmt = final
			for level := len(comms) - 1; level >= 0; level-- {
				poll := &ast.SelectStmt{Body: &ast.BlockStmt{}}
				for j, cc := range comms {
					pick := &ast.CallExpr{Fun: sel("Pick"), Args: []ast.Expr{name(j), ord, intLit(level), intLit(j)}}
					poll.Body.List = append(poll.Body.List, &ast.CommClause{Comm: commWith(cc.Comm, pick), Body: cc.Body})
				}
				poll.Body.List = append(poll.Body.List, &ast.CommClause{Body: []ast.Stmt{inner}})
				inner = poll
			}
			blk.List = append(blk.List, inner)
			list[i] = blk
		}
	}

	// import
	imp := &ast.ImportSpec{Path: &ast.BasicLit{Kind: token.STRING, Value: strconv.Quote(simrtPath)}}
	added := false
	for _, d := range f.Decls {
		if gd, ok := d.(*ast.GenDecl); ok && gd.Tok == token.IMPORT {
			gd.Specs = append(gd.Specs, imp)
			if !gd.Lparen.IsValid() {
				gd.Lparen = gd.Pos()
			}
			added = true
			break
		}
	}
	if !added {
		f.Decls = append([]ast.Decl{&ast.GenDecl{Tok: token.IMPORT, Specs: []ast.Spec{imp}}}, f.Decls...)
	}
	f.Imports = append(f.Imports, imp)

	var buf bytes.Buffer
	if err := format.Node(&buf, fset, f); err != nil {
		return err
	}
	if err := os.WriteFile(file, buf.Bytes(), 0o644); err != nil {
		return err
	}
	fmt.Printf("simrewrite: %s: %d mutex operations, %d yields, %d selects\n", base, locks, yields, selects)
	return nil
}
