// Package fixtures loads the real mainnet header fixtures that ship with the repository under test.
package fixtures

import (
	"encoding/json"
	"math/big"
	"os"
	"path/filepath"
	"sync"

	"github.com/tokenized/pkg/wire"
)

type Chain struct {
	Start   int
	Work    *big.Int // chain work of the header before Start
	Headers []*wire.BlockHeader
}

var (
	once  sync.Once
	c556  *Chain
	c725  *Chain
	loadE error
)

func repoDir() string {
	if d := os.Getenv("VERIF_REPO"); d != "" {
		return d
	}
	return "/repo"
}

func load(name string, start int, workHex string) (*Chain, error) {
	f, err := os.Open(filepath.Join(repoDir(), "headers", "test_fixtures", name))
	if err != nil {
		return nil, err
	}
	defer f.Close()
	var hs []*wire.BlockHeader
	if err := json.NewDecoder(f).Decode(&hs); err != nil {
		return nil, err
	}
	w := new(big.Int)
	w.SetString(workHex, 16)
	return &Chain{Start: start, Work: w, Headers: hs}, nil
}

// Load returns the two fixture chains: heights 556000.. (across the BSV/BCH split at 556767) and 725000...
// The chain work constants are the ones the repository's own tests use for the header before the first.
func Load() (*Chain, *Chain, error) {
	once.Do(func() {
		c556, loadE = load("headers_556000.txt", 556000, "d167cf38dd7a9c078a40d5")
		if loadE == nil {
			c725, loadE = load("headers_725000.txt", 725000, "134b2eb2b14bbedbad9a14b")
		}
	})
	return c556, c725, loadE
}
