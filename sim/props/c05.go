package props

import (
	"context"
	"fmt"
	"os"
	"testing/synctest"
	"time"

	bitcoin_reader "github.com/tokenized/bitcoin_reader"
	"github.com/tokenized/bitcoin_reader/headers"
	"github.com/tokenized/config"
	"github.com/tokenized/logger"
	"github.com/tokenized/pkg/bitcoin"
	"github.com/tokenized/pkg/wire"

	"verif/sim/core"
	"verif/sim/simstore"
	bw "verif/sim/worlds/blockworld"
	nw "verif/sim/worlds/nodeworld"
)

type c05node struct {
	blk    *bw.Block
	parent *c05node
	height int
}

func runC05(c *core.Ctx) {
	t := c.T
	ctx := logger.ContextWithNoLogger(context.Background())
	startHeight := 1 + t.Draw(5)
	concurrent := 1 + t.Draw(2)
	delay := []time.Duration{time.Second, 5 * time.Second}[t.Draw(2)]
	initialLen := startHeight + t.Draw(8)
	steps := 5 + t.Draw(50)

	store := simstore.New()
	repo := headers.NewRepository(&headers.Config{Network: bitcoin.MainNet, MaxBranchDepth: 20}, store)
	repo.DisableDifficulty()
	if err := repo.Load(ctx); err != nil {
		panic(err)
	}
	book := bitcoin_reader.NewPeerRepository(store, "")
	cfg := bitcoin_reader.DefaultConfig()
	cfg.StartBlockHeight = startHeight
	cfg.ConcurrentBlockRequests = concurrent
	cfg.BlockRequestDelay = config.NewDuration(delay)
	nm := bitcoin_reader.NewNodeManager("/sim/", cfg, repo, book)
	rec := bw.NewRecorder()
	req := &bw.Requestor{IsProcessed: rec.IsProcessed}
	bm := bitcoin_reader.NewBlockManager(rec, req, concurrent, delay)
	nm.SetBlockManager(rec, bm, rec)
	interrupt := make(chan interface{})
	bmDone := make(chan error, 1)
	var bmDoneAt time.Time
	go func() {
		err := bm.Run(ctx, interrupt)
		bmDoneAt = time.Now()
		bmDone <- err
	}()

	// the reference chain: every header commits to the transactions of its block
	genesisHdr, _ := repo.Header(ctx, 0)
	byHash := map[bitcoin.Hash32]*c05node{}
	genesis := &c05node{blk: &bw.Block{Header: genesisHdr, Hash: *genesisHdr.BlockHash()}, height: 0}
	byHash[genesis.blk.Hash] = genesis
	serial := uint32(0)
	mint := func(parent *c05node, heavy bool) *c05node {
		serial++
		b := bw.MakeBlock(serial, 1+int(serial%3), nw.MakeTx)
		b.Header.PrevBlock = parent.blk.Hash
		b.Header.Timestamp = uint32(time.Now().Unix())
		if heavy {
			b.Header.Bits = 0x1c7fffff
		}
		b.Hash = *b.Header.BlockHash()
		n := &c05node{blk: b, parent: parent, height: parent.height + 1}
		byHash[b.Hash] = n
		rec.Relevant[b.TxIDs[0]] = true
		return n
	}
	tip := genesis
	submit := func(n *c05node) {
		if err := repo.ProcessHeader(ctx, n.blk.Header); err != nil {
			c.Fail("c05.setup", "header-refused", "header at height %d refused: %v", n.height, err)
		}
	}
	for i := 0; i < initialLen; i++ {
		tip = mint(tip, false)
		submit(tip)
	}
	// already processed blocks: a tape-chosen prefix above the start height (possibly none)
	preProcessed := 0
	if tip.height > startHeight && t.Chance(1, 2) {
		preProcessed = startHeight + t.Draw(tip.height-startHeight)
		for x := tip; x != nil && x.height >= startHeight; x = x.parent {
			if x.height <= preProcessed && x.height > 0 {
				rec.Processed[x.blk.Hash] = nil
			}
		}
	}
	c.Event("config start=%d concurrent=%d delay=%v chain=%d preprocessed<=%d steps=%d", startHeight, concurrent, delay, tip.height, preProcessed, steps)

	bestTip := func() *c05node { return byHash[repo.LastHash()] }
	onBest := func(n *c05node) bool {
		for x := bestTip(); x != nil; x = x.parent {
			if x == n {
				return true
			}
		}
		return false
	}
	processedAt := map[bitcoin.Hash32]int{}
	seenCalls := 0
	seenReq := 0
	handlerOK := map[bitcoin.Hash32]bool{}
	check := func() {
		// requests
		for ; seenReq < len(req.Requests); seenReq++ {
			h := req.Requests[seenReq]
			n := byHash[h]
			if n != nil {
				c.Note("request #%d for block h=%d (processed at that moment: %v)", seenReq, n.height, req.ProcessedAtRequest[seenReq])
				for _, sx := range req.All() {
					if !sx.Returned && !(sx.Cancelled && !sx.Started) && !sx.Dropped {
						c.Note("    live source%d started=%v cancelled=%v ended=%v", sx.N, sx.Started, sx.Cancelled, sx.Ended)
					}
				}
			}
			if n == nil {
				c.Fail("c05.requests-known-blocks", "unknown", "a block that is not in the header chain was requested")
				continue
			}
			if n.height < startHeight {
				c.Fail("c05.never-below-start-height", fmt.Sprintf("height-%d", startHeight-n.height), "block at height %d was requested, start height is %d", n.height, startHeight)
			}
			firstOfEpisode := seenReq == 0 || req.Requests[seenReq-1] != h
			// With more than one concurrent download the manager may decide to add a download while the
			// first is finishing; only the first request of an episode is held to the rule then.
			if req.ProcessedAtRequest[seenReq] && (concurrent == 1 || firstOfEpisode) {
				cls := "already-processed"
				if _, mine := processedAt[h]; !mine {
					cls = "pre-processed"
				}
				c.Fail("c05.never-request-processed-block", cls, "block at height %d was requested although it was recorded as processed at that moment", n.height)
			}
		}
		// processing order
		calls := rec.Snapshot()
		for ; seenCalls < len(calls); seenCalls++ {
			cl := calls[seenCalls]
			if cl.Kind != "AppendBlockTxIDs" || cl.Err {
				continue
			}
			n := byHash[cl.Block]
			if n == nil {
				continue
			}
			c.Note("block h=%d processed (call %d)", n.height, seenCalls)
			if prev, again := processedAt[cl.Block]; again {
				if concurrent == 1 {
					c.Fail("c05.each-block-once", "processed-twice", "block at height %d was processed twice (first as call %d)", n.height, prev)
				}
				c.Probe("block-processed-twice-with-concurrent-downloads")
				continue
			}
			processedAt[cl.Block] = seenCalls + 1
			_, parentDone := processedAt[n.parent.blk.Hash]
			_, parentPre := rec.Processed[n.parent.blk.Hash]
			if !(parentDone || parentPre || n.height == startHeight || n.height == 1 && startHeight == 0) {
				c.Fail("c05.ascending-contiguous", "gap", "block at height %d was processed although its parent (height %d) is not processed and it is not the start height %d", n.height, n.height-1, startHeight)
			}
			if n.height < startHeight {
				c.Fail("c05.never-below-start-height", "processed-below-start", "block at height %d was processed, start height is %d", n.height, startHeight)
			}
			c.Probe("block-processed")
		}
	}

	// Engine F (instrumented build only): the synchroniser, block manager and downloaders run under
	// the tape's scheduler, so a trigger or a new header can land in the middle of a synchronisation round
	var fd *core.FDriver
	if core.FAvailable() {
		fd = core.NewFDriver(t)
		sch := fd.S
		sch.Install()
		defer sch.Uninstall()
		defer fd.Finish(c)
		if os.Getenv("VERIF_FTRACE") == "1" {
			fd.Trace = func(site string, n int) { c.Note("    resume %s (of %d runnable)", site, n) }
		}
		defer func() {
			c.SetInterleaving(sch.Hash(), sch.Steps())
			c.FaultN("schedule:goroutine-stalled", fd.Holds)
		}()
	}
	early := 0
	settle := func() bool {
		if fd != nil {
			before := fd.S.Steps()
			idle := fd.Settle(early, 300000)
			if n := fd.S.Steps() - before; n > 0 {
				c.Note("scheduler: %d steps, idle=%v (early stop rate %d), %d goroutines stalled by the fault plan", n, idle, early, fd.HeldCount())
				for _, w := range fd.Parked() {
					c.Note("   parked: %s lock=%v runnable=%v", w.Site, w.Lock, w.Runnable)
				}
			}
			return idle
		}
		synctest.Wait()
		return true
	}
	// advance lets simulated time pass. Under Engine F instrumented goroutines only run when they are
	// resumed: FDriver.Advance pumps the scheduler while the clock runs.
	advance := func(d time.Duration) {
		if fd == nil {
			time.Sleep(d)
			return
		}
		early = 0
		settle()
		fd.Advance(d)
	}
	// trigger: what MonitorHeaders does for a new header. Under Engine F the call runs on its own
	// goroutine (a caller thread under the statement scheduler), and now and then a second trigger is
	// issued in the same instant (the startup-delay goroutine and MonitorHeaders are different goroutines
	// in the program, so their triggers can overlap).
	trigger := func() {
		if fd == nil {
			nm.TriggerBlockSynchronize(ctx)
			return
		}
		n := 1
		if t.Chance(1, 4) {
			n = 2
			c.Probe("two-triggers-same-instant")
		}
		for i := 0; i < n; i++ {
			go nm.TriggerBlockSynchronize(ctx)
			synctest.Wait() // up to its first scheduling point
		}
	}
	if fd == nil {
		nm.MarkStartupDelayComplete(ctx)
	} else {
		go nm.MarkStartupDelayComplete(ctx)
		synctest.Wait()
		if t.Chance(1, 3) {
			go nm.TriggerBlockSynchronize(ctx) // a header arrives as the startup delay ends
			synctest.Wait()
			c.Probe("trigger-as-startup-delay-ends")
		}
	}
	c.Event("startup delay complete (sync triggered)")
	noneUntil := time.Time{}
	serve := func(faulty bool) bool {
		// one source action; returns false when no source has anything to do
		for _, s := range req.All() {
			if s.Returned {
				continue
			}
			if s.Started {
				select {
				case err := <-s.Done:
					s.Returned = true
					c.Note("source%d handler returned %v (cancelled=%v)", s.N, err, s.Cancelled)
					if err == nil {
						handlerOK[s.Hash] = true
					}
					continue
				default:
				}
			}
			if s.Cancelled && s.Started && !s.Ended {
				close(s.Ch)
				s.Ended = true
				return true
			}
			if s.Dropped || (s.Cancelled && !s.Started) {
				continue
			}
			n := byHash[s.Hash]
			if !s.Started {
				if faulty && t.Chance(1, 10) {
					s.Dropped = true
					c.Fault("source:drop-before-start")
					c.Event("source%d drops before start", s.N)
					go s.OnStop(ctx)
					return true
				}
				b := n.blk
				if faulty && t.Chance(1, 12) {
					b = bw.MakeBlock(88888, 2, nw.MakeTx)
					c.Fault("source:wrong-block")
				}
				s.Started = true
				s.Ch = make(chan *wire.MsgTx, 1000)
				h, cnt, txs := b.Header, uint64(len(b.Txs)), b.Txs
				go func(s *bw.Source) { s.Done <- s.Handler(ctx, h, cnt, s.Ch) }(s)
				cut := len(txs)
				if faulty && t.Chance(1, 8) {
					cut = t.Draw(len(txs))
					c.Fault("source:stream-cut")
				}
				for _, tx := range txs[:cut] {
					s.Ch <- tx
				}
				if faulty && cut < len(txs) && t.Chance(1, 2) {
					s.Dropped = true
					c.Fault("source:drop-mid-block")
					close(s.Ch)
					s.Ended = true
					go s.OnStop(ctx)
				} else {
					close(s.Ch)
					s.Ended = true
				}
				c.Event("source%d serves block h=%d (%d/%d txs)", s.N, n.height, cut, len(txs))
				return true
			}
		}
		return false
	}
	req.Plan = func(k int) string {
		if time.Now().Before(noneUntil) {
			return "none"
		}
		return "ok"
	}

	// waitStopped: NodeManager.Wait must return once everything was stopped; a synchronisation round
	// that Stop no longer knows about would keep it (and this run) waiting for ever.
	waitStopped := func() {
		done := make(chan struct{})
		go func() { nm.Wait(ctx); close(done) }()
		select {
		case <-done:
		case <-time.After(30 * time.Minute):
			c.Fail("c05.rounds-stop-at-shutdown", "wait-blocked", "NodeManager.Wait had not returned 30 simulated minutes after Stop: a synchronisation round is still running that Stop did not interrupt\n%s", core.BlockedGoroutines())
			c.Stop()
		}
	}
	idleStreak := 0
	step := func(faulty bool) {
		early = 0
		if faulty && fd != nil {
			early = 20
		}
		settle()
		check()
		acts := []int{10, 5, 0, 0, 0}
		if faulty {
			acts = []int{10, 5, 3, 2, 2}
		}
		switch t.Weighted(acts) {
		case 0:
			if !serve(faulty) {
				d := []time.Duration{time.Second, delay, 10 * time.Second}[t.Draw(3)]
				if !faulty {
					// epilogue with nothing to serve: wait in growing steps (the liveness budget is tens
					// of simulated minutes per block; thousands of one second events add nothing)
					idleStreak++
					if idleStreak > 10 {
						d = time.Minute
					}
					if idleStreak > 30 {
						d = 5 * time.Minute
					}
				}
				advance(d)
				c.AddSimTime(int64(d))
				c.Event("advance %v (idle)", d)
			} else {
				idleStreak = 0
			}
		case 1:
			d := []time.Duration{time.Second, delay, 10 * time.Second, time.Minute}[t.Draw(4)]
			advance(d)
			c.AddSimTime(int64(d))
			c.Event("advance %v", d)
		case 2: // the chain grows
			nt := mint(bestTip(), false)
			submit(nt)
			trigger()
			c.Event("new block h=%d (trigger)", nt.height)
			c.Probe("new-header-during-sync")
		case 3: // reorg: a heavier fork from a few blocks below the tip
			bt := bestTip()
			depth := 1 + t.Draw(3)
			fp := bt
			for i := 0; i < depth && fp.parent != nil && fp.height > 0; i++ {
				fp = fp.parent
			}
			x := fp
			for i := 0; i < depth; i++ {
				x = mint(x, true)
				submit(x)
			}
			x = mint(x, true)
			submit(x)
			trigger()
			c.Event("reorg from h=%d: new tip h=%d", fp.height, x.height)
			c.Fault("reorg")
			if !onBest(bt) {
				c.Probe("reorg-orphaned-old-tip")
			}
		case 4: // no node available for a while
			noneUntil = time.Now().Add(time.Duration(5+t.Draw(60)) * time.Second)
			c.Fault("source:none-available")
			c.Event("no node available for a while")
		}
	}
	gaveUp := false
	for i := 0; i < steps; i++ {
		step(true)
		select {
		case err := <-bmDone:
			// The block manager gave up (no source for more than 20 request delays). In the program
			// this ends the process (main waits on the "Process Blocks" thread): not a silent stall.
			c.Event("block manager returned: %v; the process would exit here", errShortP(err))
			c.Probe("block-manager-gave-up")
			gaveUp = true
		default:
		}
		if gaveUp {
			break
		}
	}
	if gaveUp {
		if fd != nil {
			fd.Finish(c)
		}
		synctest.Wait()
		check()
		c.Nontrivial()
		close(interrupt)
		nm.Stop(ctx)
		for i := 0; i < 100; i++ {
			synctest.Wait()
			for _, s := range req.All() {
				if s.Started && !s.Ended {
					close(s.Ch)
					s.Ended = true
				}
			}
			time.Sleep(time.Minute)
		}
		waitStopped()
		return
	}
	// fault free epilogue: honest sources; every best-chain block from the start height must get processed
	noneUntil = time.Time{}
	if fd != nil {
		fd.ReleaseAll()
	}
	epilogueStart := time.Now()
	// Every header that arrived was followed by its trigger at that moment (as MonitorHeaders does).
	// In half of the runs nothing triggers synchronisation again from here on, so a trigger that the
	// reader lost is not papered over; in the other half headers keep arriving now and then.
	quietEpilogue := t.Draw(2) == 0
	if !quietEpilogue {
		trigger()
	}
	missing := func() []int {
		var out []int
		for x := bestTip(); x != nil && x.height >= startHeight && x.height > 0; x = x.parent {
			_, a := processedAt[x.blk.Hash]
			_, b := rec.Processed[x.blk.Hash]
			if a || b {
				break // everything above the most recent processed block is what must be done
			}
			out = append(out, x.height)
		}
		return out
	}
	budget := time.Now().Add(time.Duration(30*(bestTip().height+2)) * time.Minute)
	for i := 0; i < 20000 && time.Now().Before(budget); i++ {
		step(false)
		select {
		case err := <-bmDone:
			if bmDoneAt.Sub(epilogueStart) > 30*delay {
				c.Fail("c05.sync-completes-after-faults-stop", "block-manager-gave-up-with-honest-sources", "the block manager gave up (%v) although an honest source had been available for %v", err, bmDoneAt.Sub(epilogueStart))
			} else {
				c.Probe("block-manager-gave-up") // still counting the unavailability from before the epilogue
			}
			gaveUp = true
		default:
		}
		if gaveUp {
			break
		}
		if i%20 == 19 && !quietEpilogue {
			trigger() // a new header arrives now and then (MonitorHeaders would do this)
		}
		if len(missing()) == 0 && bestTip().height >= startHeight {
			break
		}
		if bestTip().height < startHeight {
			break
		}
	}
	early = 0
	settle()
	if fd != nil {
		fd.Finish(c)
	}
	synctest.Wait()
	check()
	c.Nontrivial()
	if ms := missing(); len(ms) > 0 && bestTip().height >= startHeight && !gaveUp {
		c.Diag("goroutines at the end:\n%s", core.BlockedGoroutines())
		c.Fail("c05.sync-completes-after-faults-stop", fmt.Sprintf("missing=%d", min(len(ms), 3)), "with honest sources and no further faults, best-chain blocks at heights %v were not processed within %d simulated minutes", ms, 30*(bestTip().height+2))
	} else {
		c.Probe("sync-complete")
	}
	close(interrupt)
	nm.Stop(ctx)
	for i := 0; i < 100; i++ {
		synctest.Wait()
		for _, s := range req.All() {
			if s.Started && !s.Ended {
				close(s.Ch)
				s.Ended = true
			}
		}
		select {
		case <-bmDone:
			i = 1000
		default:
			time.Sleep(time.Minute)
		}
	}
	waitStopped()
}

func init() {
	core.Register(&core.Property{
		ID: "C05", Engine: "G", Level: "exploration", Bubble: true,
		Rule: "each run: a real NodeManager block synchroniser (TriggerBlockSynchronize / synchronizeBlocks, started through the verif hook for the startup delay) over a real headers.Repository, a real BlockManager.Run with real BlockDownloaders, simulated block sources and a recording processor/block store; tape-chosen start height 1-5, chain length, pre-processed prefix, ConcurrentBlockRequests 1-2, request delay; at every quiescent point the tape picks: a source serves (fully, wrong block, cut stream, drop before/after start), the clock advances (1 s .. 1 min), a new block arrives, a heavier fork reorganises 1-3 blocks (possibly the block being requested), or no node is available for a while; a BlockManager that gives up ends the run (the program exits there); then a fault-free epilogue with honest sources; non-trivial = every run; distinct = distinct hash of the canonical event log; in half of the runs the epilogue is quiet (nothing triggers synchronisation after the faults stop). Engine F phase (second search phase, instrumented build, see DESIGN.md 2.4): the same world with the synchroniser, the block manager and the downloaders under the tape's statement-level scheduler (node_manager.go, block_manager.go, block_downloader.go rewritten), goroutines stalled at tape-chosen sites for up to 31 simulated seconds (also while holding locks), the clock pumped between timers and the driver's next action landing in the middle of the reaction to the timers of the final instant",
		Real: append([]string{"NodeManager.TriggerBlockSynchronize / runSynchronizeBlocks / synchronizeBlocks (real code)", "headers.Repository (real code)"}, blockReal...), Stub: blockStub,
		Assumptions: []string{"header arrival is modelled by direct ProcessHeader calls plus TriggerBlockSynchronize (what MonitorHeaders does for an in-sync node)",
			"liveness is checked only in the fault-free epilogue, with a budget of 30 simulated minutes per block"},
		FaultKinds:   []string{"schedule:goroutine-stalled", "reorg", "source:none-available", "source:wrong-block", "source:stream-cut", "source:drop-before-start", "source:drop-mid-block"},
		ProbeNames:   []string{"block-processed", "new-header-during-sync", "reorg-orphaned-old-tip", "sync-complete", "block-manager-gave-up", "block-processed-twice-with-concurrent-downloads"},
		Run:          runC05,
		QuickSeconds: 20, ThoroughSeconds: 700, MinRuns: 200, BatchSize: 20, RunTimeoutSeconds: 300,
		FQuickSeconds: 15, FThoroughSeconds: 500,
	})
}
