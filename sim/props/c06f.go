package props

import (
	"context"
	"fmt"
	"sort"
	"strings"
	"testing/synctest"
	"time"

	"github.com/anishathalye/porcupine"
	"github.com/google/uuid"
	bitcoin_reader "github.com/tokenized/bitcoin_reader"
	"github.com/tokenized/logger"
	"github.com/tokenized/pkg/bitcoin"
	"github.com/tokenized/pkg/wire"

	"verif/sim/core"
	nw "verif/sim/worlds/nodeworld"
)

// Engine F world for C06: concurrent peers call the real TxManager (announcements, deliveries, retry
// polls) while TxManager.Run forwards to the processor; every statement of tx_manager.go is a
// scheduling point of the tape's scheduler (instrumented build). The recorded history is checked, per
// transaction, for linearizability against the sequential reference of one transaction's request state
// (a retry poll is one sub-operation per transaction it could have returned: the code locks one
// transaction at a time, and the property speaks about each transaction).

type c06In struct {
	Op   string // announce, deliver, poll
	Peer int
	Tx   int
	Now  int64 // simulated time of the call, nanoseconds
}

type c06State struct {
	known, received bool
	lastGrant       int64
	pending         string // sorted peer numbers that announced and have not been asked since, e.g. "0,2"
}

func c06PendingHas(p string, peer int) bool {
	for _, x := range strings.Split(p, ",") {
		if x == fmt.Sprint(peer) {
			return true
		}
	}
	return false
}

func c06PendingSet(p string, peer int, on bool) string {
	m := map[string]bool{}
	for _, x := range strings.Split(p, ",") {
		if x != "" {
			m[x] = true
		}
	}
	if on {
		m[fmt.Sprint(peer)] = true
	} else {
		delete(m, fmt.Sprint(peer))
	}
	var l []string
	for k := range m {
		l = append(l, k)
	}
	sort.Strings(l)
	return strings.Join(l, ",")
}

func c06Model(timeout time.Duration) porcupine.Model {
	return porcupine.Model{
		Partition: func(history []porcupine.Operation) [][]porcupine.Operation {
			by := map[int][]porcupine.Operation{}
			var keys []int
			for _, op := range history {
				k := op.Input.(c06In).Tx
				if _, ok := by[k]; !ok {
					keys = append(keys, k)
				}
				by[k] = append(by[k], op)
			}
			sort.Ints(keys)
			var out [][]porcupine.Operation
			for _, k := range keys {
				out = append(out, by[k])
			}
			return out
		},
		Init: func() interface{} { return c06State{} },
		Step: func(state, input, output interface{}) (bool, interface{}) {
			s := state.(c06State)
			in := input.(c06In)
			switch in.Op {
			case "announce":
				want := !s.known || (!s.received && in.Now-s.lastGrant >= int64(timeout))
				if want {
					s.lastGrant = in.Now
					s.pending = c06PendingSet(s.pending, in.Peer, false)
				} else if !s.received {
					s.pending = c06PendingSet(s.pending, in.Peer, true)
				}
				s.known = true
				return output.(bool) == want, s
			case "deliver":
				if !s.known {
					s.known = true
					s.lastGrant = in.Now
				}
				s.received = true
				return true, s
			case "poll":
				want := s.known && !s.received && c06PendingHas(s.pending, in.Peer) && in.Now-s.lastGrant >= int64(timeout)
				if want {
					s.lastGrant = in.Now
					s.pending = c06PendingSet(s.pending, in.Peer, false)
				}
				return output.(bool) == want, s
			}
			return false, s
		},
		DescribeOperation: func(input, output interface{}) string {
			in := input.(c06In)
			return fmt.Sprintf("%s(peer%d, tx%d)@%v -> %v", in.Op, in.Peer, in.Tx, time.Duration(in.Now), output)
		},
	}
}

func runC06F(c *core.Ctx) {
	t := c.T
	ctx := logger.ContextWithNoLogger(context.Background())
	timeout := []time.Duration{2 * time.Second, 500 * time.Millisecond, 10 * time.Second}[t.Draw(3)]
	nPeers := 2 + t.Draw(3)
	nTx := 1 + t.Draw(3)
	phases := 1 + t.Draw(5)
	// constructed before the scheduler is installed: the driver never parks
	m := bitcoin_reader.NewTxManager(timeout)
	proc := nw.NewProcessor()
	m.SetTxProcessor(proc)
	m.SetTxSaver(proc)
	fd := core.NewFDriver(t)
	fd.HoldFor = 0 // a stalled caller resumes when nothing else can run: the clock stands still during a phase, so every call has one time
	fd.S.Install()
	defer fd.S.Uninstall()
	defer fd.Finish(c)
	defer func() {
		c.SetInterleaving(fd.S.Hash(), fd.S.Steps())
		c.FaultN("schedule:goroutine-stalled", fd.Holds)
	}()
	done := make(chan error, 1)
	go func() { done <- m.Run(ctx) }()
	interrupt := make(chan interface{})
	var peers []uuid.UUID
	for i := 0; i < nPeers; i++ {
		var id uuid.UUID
		copy(id[:], fmt.Sprintf("peer-%011d", i))
		peers = append(peers, id)
	}
	// one transaction per bucket: the iteration order of a Go map (two txids in one bucket) is not a
	// choice this simulation owns; bucket collisions are covered by the Engine G phase
	var txs []*wire.MsgTx
	var ids []bitcoin.Hash32
	usedBucket := map[byte]bool{}
	for k := uint32(0); len(txs) < nTx; k++ {
		tx := nw.MakeTx(60000+k, 0)
		h := *tx.TxHash()
		if usedBucket[h[0]] || h[0] >= 8 {
			// low bucket numbers: loops over the 256 buckets (GetTxRequests in random order, Clean in
			// ascending order) reach these transactions' buckets within their first iterations, where
			// the stall plan's per-site share is not used up yet
			continue
		}
		usedBucket[h[0]] = true
		txs = append(txs, tx)
		ids = append(ids, h)
	}
	relevant := make([]bool, nTx)
	for i := range relevant {
		relevant[i] = t.Chance(1, 2)
	}
	proc.Relevant = func(h bitcoin.Hash32) bool {
		for i, id := range ids {
			if id == h {
				return relevant[i]
			}
		}
		return false
	}
	start := time.Now()
	c.Event("config timeout=%v peers=%d txs=%d phases=%d", timeout, nPeers, nTx, phases)
	fc := &core.FClients{D: fd}
	delivered := make([]int, nTx)
	total := 0
	cleans := 0
	for ph := 0; ph < phases && total < 40; ph++ {
		now := int64(time.Since(start))
		calls := make([][]core.FCall, nPeers)
		for p := range calls {
			p := p
			for k, n := 0, t.Draw(4); k < n; k++ {
				i := t.Draw(nTx)
				total++
				switch t.Weighted([]int{5, 4, 3, 2}) {
				case 3:
					// the periodic clean-up (cmd/node calls it with a cut-off in the past): with a cut-off
					// before the run began it must forget nothing, whatever it overlaps with
					calls[p] = append(calls[p], core.FCall{In: c06In{Op: "clean", Peer: p, Tx: -1, Now: now}, Do: func() interface{} {
						if err := m.Clean(ctx, start.Add(-time.Hour)); err != nil {
							panic(err)
						}
						return true
					}})
					cleans++
				case 0:
					calls[p] = append(calls[p], core.FCall{In: c06In{Op: "announce", Peer: p, Tx: i, Now: now}, Do: func() interface{} {
						got, err := m.AddTxID(ctx, peers[p], ids[i])
						if err != nil {
							panic(err)
						}
						return got
					}})
				case 1:
					delivered[i]++
					calls[p] = append(calls[p], core.FCall{In: c06In{Op: "deliver", Peer: p, Tx: i, Now: now}, Do: func() interface{} {
						m.AddTx(ctx, interrupt, peers[p], txs[i])
						return true
					}})
				default:
					// a retry poll: recorded as one sub-operation per transaction
					calls[p] = append(calls[p], core.FCall{In: c06In{Op: "poll-all", Peer: p, Now: now}, Do: func() interface{} {
						got, err := m.GetTxRequests(ctx, peers[p], 1000)
						if err != nil {
							panic(err)
						}
						res := make([]bool, nTx)
						for _, h := range got {
							for j, id := range ids {
								if id == h {
									res[j] = true
								}
							}
						}
						return res
					}})
				}
			}
		}
		c.Event("phase %d at %v: %d calls so far", ph, time.Duration(now), total)
		if !fc.Phase(calls) {
			c.Fail("c06.calls-return", "caller-blocked", "a TxManager call never returned although every other goroutine had finished:\n%s", core.BlockedGoroutines())
			return
		}
		ds := []time.Duration{0, time.Millisecond, timeout / 2, timeout - time.Nanosecond, timeout, timeout + time.Millisecond, 3 * timeout}
		if d := ds[t.Draw(len(ds))]; d > 0 {
			fd.Advance(d)
			c.AddSimTime(int64(d))
		}
	}
	// everything queued reaches the processor
	fd.ReleaseAll()
	fd.Settle(0, 1<<30)
	fd.Finish(c)
	synctest.Wait()
	c.Nontrivial()
	// split the polls into per-transaction operations
	var hist []porcupine.Operation
	for _, op := range fc.History {
		in := op.Input.(c06In)
		if in.Op == "clean" {
			continue // forgets nothing in the reference: not an operation on any transaction
		}
		if in.Op != "poll-all" {
			hist = append(hist, op)
			continue
		}
		res := op.Output.([]bool)
		for j := range res {
			o := op
			o.Input = c06In{Op: "poll", Peer: in.Peer, Tx: j, Now: in.Now}
			o.Output = res[j]
			hist = append(hist, o)
		}
	}
	fc.History = hist
	model := c06Model(timeout)
	switch fc.CheckLinearizable(model, 0) {
	case porcupine.Illegal:
		var lines []string
		for _, op := range hist {
			lines = append(lines, fmt.Sprintf("peer%d [%d,%d] %s", op.ClientId, op.Call, op.Return, model.DescribeOperation(op.Input, op.Output)))
		}
		c.Fail("c06.request-state-linearizable", "history-not-linearizable", "for some transaction no order of the recorded calls that respects their real-time order explains the answers by the sequential request rule (first announcer asked, others recorded, re-request only after the timeout, never after delivery):\n%s", strings.Join(lines, "\n"))
	case porcupine.Unknown:
		c.Probe("linearizability-check-inconclusive")
	default:
		c.Probe("history-linearizable")
	}
	for j := range ids {
		want := 0
		if delivered[j] > 0 {
			want = 1
		}
		if n := proc.Count(ids[j]); n != want {
			c.Fail("c06.processed-exactly-once", fmt.Sprintf("final count=%d delivered=%d concurrent", n, min(delivered[j], 3)), "tx%d reached the processor %d times after %d concurrent deliveries", j, n, delivered[j])
		}
		sv := 0
		if delivered[j] > 0 && relevant[j] {
			sv = 1
		}
		if n := procSaved(proc, ids[j]); n != sv {
			c.Fail("c06.saved-exactly-once-if-relevant", fmt.Sprintf("saved=%d relevant=%v concurrent", n, relevant[j]), "tx%d was saved %d times (relevant=%v, deliveries=%d)", j, n, relevant[j], delivered[j])
		}
		if delivered[j] > 1 {
			c.Probe("same-tx-delivered-concurrently")
		}
		if cleans > 0 {
			c.Probe("clean-overlapping-calls")
		}
	}
	m.Stop(ctx)
	<-done
	close(interrupt)
}
