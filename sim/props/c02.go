package props

import (
	"context"
	"fmt"
	"math/big"

	"github.com/tokenized/bitcoin_reader/headers"
	"github.com/tokenized/logger"
	"github.com/tokenized/pkg/bitcoin"
	"github.com/tokenized/pkg/wire"

	"verif/sim/core"
	"verif/sim/fixtures"
	"verif/sim/model"
	"verif/sim/simstore"
	hw "verif/sim/worlds/headersworld"
)

const daaActivation = 556767 // from the property text

func runC02(c *core.Ctx) {
	switch c.T.Weighted([]int{3, 5, 2}) {
	case 0:
		runC02RealChain(c)
	case 1:
		runC02SimulatedMining(c)
	default:
		runC02Bits(c)
	}
}

// runC02RealChain: real mainnet headers through ProcessHeader with difficulty on, with single field
// mutants and easy-bits impostors offered at tape-chosen points.
func runC02RealChain(c *core.Ctx) {
	t := c.T
	ctx := logger.ContextWithNoLogger(context.Background())
	f556, f725, err := fixtures.Load()
	if err != nil {
		panic(err)
	}
	fx := f556
	if t.Chance(1, 2) {
		fx = f725
	}
	real := fx.Headers
	repo := headers.NewRepository(headers.DefaultConfig(), simstore.New())
	repo.DisableDifficulty()
	w0 := new(big.Int).Add(fx.Work, model.WorkForBits(real[0].Bits))
	repo.MockLatest(ctx, real[0], fx.Start, w0)
	tree := model.NewRooted(real[0], fx.Start, w0)
	node := tree.Genesis
	upTo := 160 + t.Draw(len(real)-161)
	if upTo > 160+700 && !c.Thorough() {
		upTo = 160 + t.Draw(700)
	}
	c.Event("real chain from %d, %d headers, difficulty on after 150", fx.Start, upTo)
	mutants := 0
	competing := false
	for i := 1; i < upTo; i++ {
		if i == 150 {
			repo.EnableDifficulty()
		}
		h := real[i]
		height := fx.Start + i
		if i > 150 && t.Chance(1, 25) {
			// a single field mutation of the real header, offered before the real one
			m := *h
			field := []string{"nonce", "bits-mantissa+1", "bits-mantissa-1", "bits-exponent", "timestamp", "merkle-root", "version", "easy-bits"}[t.Draw(8)]
			switch field {
			case "nonce":
				m.Nonce ^= 1 << uint(t.Draw(32))
			case "bits-mantissa+1":
				m.Bits++
			case "bits-mantissa-1":
				m.Bits--
			case "bits-exponent":
				m.Bits += 0x01000000
			case "timestamp":
				m.Timestamp += uint32(1 + t.Draw(600))
			case "merkle-root":
				m.MerkleRoot[t.Draw(32)] ^= byte(1 + t.Draw(255))
			case "version":
				m.Version ^= 1 << uint(t.Draw(30))
			case "easy-bits":
				// a header that passes its own very easy proof of work: must be refused for wrong bits
				m.Bits = 0x207fffff
				tgt, _ := model.CompactToTarget(m.Bits)
				for k := 0; k < 64; k++ {
					m.Nonce = uint32(k)
					if model.HashMeetsTarget(model.HeaderHash(&m), tgt) {
						break
					}
				}
			}
			mh := model.HeaderHash(&m)
			tgt, canon := model.CompactToTarget(m.Bits)
			meets := canon && model.HashMeetsTarget(mh, tgt)
			want, _ := model.RequiredBits(node)
			refAccept := meets && (height < daaActivation || m.Bits == want)
			err := repo.ProcessHeader(ctx, &m)
			v := hw.Verdict(err)
			mutants++
			c.Event("mutant %s at %d -> %s", field, height, v)
			c.Probe("mutant:" + field)
			if field == "easy-bits" && meets {
				c.Probe("easy-bits-impostor-passes-own-pow")
			}
			if (v == "ok") != refAccept {
				c.Fail("c02.mutant-verdict", fmt.Sprintf("%s accepted=%v reference=%v", field, v == "ok", refAccept),
					"mutated real header (%s) at height %d answered %q; reference: hash meets its target=%v, bits required %08x, has %08x", field, height, v, meets, want, m.Bits)
			}
			if v != "ok" && repo.HashHeight(mh) != -1 {
				c.Fail("c02.refused-header-not-added", field, "a refused mutant of the header at %d is known afterwards", height)
			}
		}
		if i > 160 && !competing && t.Chance(1, 150) {
			// a competing branch with far more claimed work forks 1-3 blocks below the tip and becomes
			// the most-work branch (added with the difficulty switch off, as a stand-in for mining):
			// the real headers that follow extend a branch that is NOT the longest and must still be
			// judged by their own branch's history
			competing = true
			fp := node
			for k := 0; k < 1+t.Draw(3) && fp.Parent != nil; k++ {
				fp = fp.Parent
			}
			repo.DisableDifficulty()
			prev := fp.Header
			for k := 0; k < 1+t.Draw(3); k++ {
				fh := &wire.BlockHeader{Version: 0x20000000, PrevBlock: model.HeaderHash(prev), Timestamp: prev.Timestamp + uint32(1+t.Draw(4000)), Bits: 0x1500ffff, Nonce: uint32(k)}
				if err := repo.ProcessHeader(ctx, fh); err != nil {
					if hw.Verdict(err) == "wrong-chain" {
						// the fork reached the chain split height, where only the BSV header is accepted
						// (C03): the competing branch ends here
						c.Probe("competing-branch-stopped-at-split-height")
						break
					}
					c.Fail("c02.setup", "competing-branch", "could not add the competing branch: %v", err)
				}
				prev = fh
			}
			repo.EnableDifficulty()
			c.Event("competing heavier branch from height %d", fp.Height)
			c.Probe("real-headers-on-non-longest-branch")
			c.Nontrivial()
		}
		if err := repo.ProcessHeader(ctx, h); err != nil {
			c.Fail("c02.real-chain-accepted", hw.Verdict(err), "real mainnet header at height %d refused: %v (competing heavier branch present: %v)", height, err, competing)
			return
		}
		node = tree.Mint(node, h, nil)
		if i > 150 {
			if want, ok := model.RequiredBits(node.Parent); ok && height >= daaActivation && want != h.Bits {
				c.Fail("c02.reference-daa-matches-real-chain", "reference-mismatch", "the reference difficulty algorithm gives %08x for real height %d, the chain has %08x (a defect of the reference model)", want, height, h.Bits)
			}
		}
	}
	if mutants > 0 {
		c.Nontrivial()
	}
	c.Probe("real-chain-run")
}

// runC02SimulatedMining: miners with faulty clocks extend a real headers.Branch; Branch.Target must give
// the reference bits for every new height, on the main branch and on forks inside the window.
func runC02SimulatedMining(c *core.Ctx) {
	t := c.T
	ctx := logger.ContextWithNoLogger(context.Background())
	baseBits := []uint32{0x1802f0a0, 0x1802f0a0, 0x1b0404cb, 0x1c0fffff, 0x1d00ffff}[t.Draw(5)]
	ts := uint32(1540000000)
	first := &wire.BlockHeader{Version: 1, Timestamp: ts, Bits: baseBits, Nonce: 1}
	tree := model.NewTree(first)
	branch, err := headers.NewBranch(nil, -1, first)
	if err != nil {
		panic(err)
	}
	node := tree.Genesis
	clockMode := t.Draw(6) // 0 steady, 1 jittery, 2 ties, 3 backwards jumps, 4 fast/slow regimes, 5 absurd clocks
	farLeft, farTime := 0, uint32(0)
	total := 150 + t.Draw(120)
	c.Event("simulated mining base-bits=%08x clock-mode=%d blocks=%d", baseBits, clockMode, total)
	nextTime := func(prev uint32, i int) uint32 {
		switch clockMode {
		case 0:
			return prev + 600
		case 1:
			return prev + uint32(1+t.Draw(1800))
		case 2:
			if t.Chance(1, 2) {
				c.Probe("timestamp-tie")
				return prev
			}
			return prev + uint32(t.Draw(3))*600
		case 3:
			if t.Chance(1, 4) {
				c.Probe("timestamp-backwards")
				d := uint32(1 + t.Draw(7200))
				if d > prev {
					d = prev
				}
				return prev - d
			}
			return prev + uint32(t.Draw(2400))
		case 5:
			// miners with absurd clocks: one to three consecutive blocks stamped decades away from the
			// honest clock (2^31 seconds and more, either direction), then back; nothing in
			// ProcessHeader bounds a header's timestamp
			honest := ts + uint32(i)*600
			if farLeft > 0 {
				farLeft--
				c.Probe("timestamp-far-jump")
				return farTime + uint32(t.Draw(100))
			}
			if t.Chance(1, 20) {
				farLeft = t.Draw(3)
				farTime = []uint32{0xf0000000, honest + 0x80000000, honest + 0x7fffff00, 1000, honest - 0x50000000}[t.Draw(5)]
				c.Probe("timestamp-far-jump")
				return farTime
			}
			return honest
		default:
			if (i/40)%2 == 0 {
				return prev + uint32(1+t.Draw(120))
			}
			c.Probe("slow-regime")
			return prev + uint32(3000+t.Draw(6000))
		}
	}
	check := func(br *headers.Branch, prev *model.Node, where string) uint32 {
		want, ok := model.RequiredBits(prev)
		if !ok {
			return prev.Header.Bits
		}
		target, err := br.Target(ctx, prev.Height+1)
		if err != nil {
			c.Fail("c02.daa-computable", where, "Branch.Target(%d) failed: %v", prev.Height+1, err)
			return want
		}
		got := bitcoin.ConvertToBits(target, bitcoin.MaxBits)
		c.Probe("daa-compared")
		if got != want {
			// classify: tie among the three endpoint candidates at either end?
			cls := where
			if tie3(prev) || tie3(ancestor(prev, 144)) {
				cls += " timestamp-tie-at-endpoint"
			}
			if want == 0x1d00ffff || got == 0x1d00ffff {
				cls += " pow-limit"
			}
			c.Fail("c02.daa-equals-reference", cls, "height %d: Branch.Target gives bits %08x, the reference algorithm %08x (clock mode %d, base bits %08x)", prev.Height+1, got, want, clockMode, baseBits)
		}
		return want
	}
	for i := 1; i < total; i++ {
		bits := check(branch, node, "main")
		h := &wire.BlockHeader{Version: 1, PrevBlock: node.Hash, Timestamp: nextTime(node.Header.Timestamp, i), Bits: bits, Nonce: uint32(i)}
		if !branch.Add(h) {
			panic("add")
		}
		node = tree.Mint(node, h, nil)
		if c.Failed() {
			break
		}
		// a fork inside the window
		if i > 150 && t.Chance(1, 12) && !c.Failed() {
			depth := 1 + t.Draw(5)
			fp := ancestor(node, depth)
			fbits := check(branchAt(branch), fp, "fork-point")
			fh := &wire.BlockHeader{Version: 1, PrevBlock: fp.Hash, Timestamp: nextTime(fp.Header.Timestamp, i) + 1, Bits: fbits, Nonce: uint32(100000 + i)}
			fb, err := headers.NewBranch(branch, fp.Height, fh)
			if err != nil {
				c.Fail("c02.daa-computable", "fork", "NewBranch at height %d failed: %v", fp.Height, err)
				break
			}
			fn := tree.Mint(fp, fh, nil)
			c.Probe("fork-inside-window")
			for k := 0; k < 1+t.Draw(4); k++ {
				b2 := check(fb, fn, "fork")
				h2 := &wire.BlockHeader{Version: 1, PrevBlock: fn.Hash, Timestamp: nextTime(fn.Header.Timestamp, i), Bits: b2, Nonce: uint32(200000 + i*10 + k)}
				if !fb.Add(h2) {
					panic("add fork")
				}
				fn = tree.Mint(fn, h2, nil)
			}
		}
	}
	c.Nontrivial()
}

func branchAt(b *headers.Branch) *headers.Branch { return b }

func ancestor(n *model.Node, k int) *model.Node {
	for i := 0; i < k && n != nil; i++ {
		n = n.Parent
	}
	return n
}

func tie3(n *model.Node) bool {
	if n == nil || n.Parent == nil || n.Parent.Parent == nil {
		return false
	}
	a, b, cc := n.Header.Timestamp, n.Parent.Header.Timestamp, n.Parent.Parent.Header.Timestamp
	return a == b || b == cc || a == cc
}

// runC02Bits: one of the 1792 enumerated bits encodings on a header submitted right after genesis and
// on the real chain above the activation height (no crash; canonical encodings get the reference verdict).
func runC02Bits(c *core.Ctx) {
	t := c.T
	ctx := logger.ContextWithNoLogger(context.Background())
	mants := []uint32{0, 1, 0x7fffff, 0x800000, 0x00ffff, 0xffffff, 0x010000}
	repo := headers.NewRepository(headers.DefaultConfig(), simstore.New())
	if err := repo.Load(ctx); err != nil {
		panic(err)
	}
	g, _ := repo.Header(ctx, 0)
	n := 1 + t.Draw(40)
	for k := 0; k < n; k++ {
		bits := uint32(t.Draw(256))<<24 | mants[t.Draw(len(mants))]
		h := &wire.BlockHeader{Version: 1, PrevBlock: *g.BlockHash(), Timestamp: g.Timestamp + 600, Bits: bits, Nonce: uint32(t.Draw(1 << 30))}
		tgt, canon := model.CompactToTarget(bits)
		exp := bits >> 24
		canon = canon && exp >= 3 && exp <= 32
		err := repo.ProcessHeader(ctx, h)
		v := hw.Verdict(err)
		c.Event("bits %08x -> %s", bits, v)
		c.Probe("bits-encoding-submitted")
		if canon {
			want := model.HashMeetsTarget(model.HeaderHash(h), tgt)
			if (v == "ok") != want {
				c.Fail("c02.canonical-bits-verdict", fmt.Sprintf("accepted=%v reference=%v", v == "ok", want), "header with canonical bits %08x answered %q, reference (hash <= target) says accept=%v", bits, v, want)
			}
		} else {
			c.Probe("non-canonical-bits")
		}
	}
	c.Nontrivial()
}

func init() {
	core.Register(&core.Property{
		ID: "C02", Engine: "S", Level: "exploration",
		Rule: "each run is one of three sequential worlds. (a) real chain: 160 to 860 (thorough: all ~2000/~840) real mainnet headers from the two fixture files go through ProcessHeader with difficulty ON (after the 150 headers the window needs); every real header must be accepted and an independent implementation of the 144 block algorithm must give the chain's own bits; at tape-chosen points a single-field mutant of the next real header (nonce, bits mantissa +-1, bits exponent, timestamp, merkle root, version) or an impostor that passes its own easy proof of work is offered first and must get the reference verdict and not become known; in some runs a competing branch with more claimed work is planted a few blocks below the tip so that the following real headers extend a branch that is not the most-work one. (b) simulated mining: miners with faulty clocks (steady, jitter, ties among consecutive blocks, backwards jumps, fast/slow regimes, absurd clocks: 1-3 consecutive blocks stamped 2^31 seconds and more away from the honest clock in either direction) extend a real headers.Branch for 150-270 blocks at 5 difficulty levels with self-consistent bits, with forks started inside the 147 block window; Branch.Target->ConvertToBits must equal the reference algorithm for every new height on the main branch, at the fork point and on the fork. (c) bits encodings: headers with exponent byte 0..255 x 7 mantissa classes are submitted after genesis with difficulty ON: never a crash, and canonical encodings get the reference verdict (hash <= target). non-trivial = every run of (b) and (c), runs of (a) with at least one mutant; distinct = distinct hash of the canonical event log",
		Real: []string{"headers.Repository.ProcessHeader with difficulty on (real code)", "headers.Branch.Target / MedianTimeAndWork (real code)", "pkg/bitcoin compact bits and work conversion, pkg/wire WorkIsValid (real dependency code)"},
		Stub: []string{"storage -> simstore", "miners and their clocks -> simulator"},
		Assumptions: []string{"the arithmetic core is a pure function of the branch history; the simulator contributes the histories (clock faults, fork placement) and sampled inputs, it does not enumerate the 2^32 bits encodings or all 147-header windows",
			"real proof of work cannot be mined offline, so simulated histories are checked through Branch.Target (exported) rather than through ProcessHeader"},
		ProbeNames: []string{"real-chain-run", "mutant:nonce", "mutant:bits-mantissa+1", "mutant:bits-mantissa-1", "mutant:bits-exponent", "mutant:timestamp", "mutant:merkle-root", "mutant:version", "mutant:easy-bits", "easy-bits-impostor-passes-own-pow", "real-headers-on-non-longest-branch",
			"daa-compared", "timestamp-tie", "timestamp-backwards", "timestamp-far-jump", "slow-regime", "fork-inside-window", "bits-encoding-submitted", "non-canonical-bits"},
		Run:          runC02,
		QuickSeconds: 25, ThoroughSeconds: 900, MinRuns: 200, BatchSize: 20, RunTimeoutSeconds: 240,
	})
}
