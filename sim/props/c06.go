package props

import (
	"context"
	"fmt"
	"sort"
	"testing/synctest"
	"time"

	"github.com/google/uuid"
	bitcoin_reader "github.com/tokenized/bitcoin_reader"
	"github.com/tokenized/logger"
	"github.com/tokenized/pkg/bitcoin"
	"github.com/tokenized/pkg/wire"

	"verif/sim/core"
	bw "verif/sim/worlds/blockworld"
	nw "verif/sim/worlds/nodeworld"
)

// txSpec is the sequential reference for one txid.
type txSpec struct {
	known     bool
	received  bool
	lastGrant time.Time
	pending   map[int]bool // peers that announced it and have not been asked since
	delivered int
	relevant  bool
}

func runC06(c *core.Ctx) {
	if core.FAvailable() {
		// Engine F phase (instrumented build): concurrent peers with per-transaction linearizability, or
		// (one run in three) the end-to-end world with the nodes and the manager under the scheduler
		if c.T.Chance(1, 3) {
			runC06EndToEnd(c)
			return
		}
		runC06F(c)
		return
	}
	if c.T.Chance(2, 5) {
		runC06EndToEnd(c)
		return
	}
	t := c.T
	ctx := logger.ContextWithNoLogger(context.Background())
	timeout := []time.Duration{2 * time.Second, 500 * time.Millisecond, 10 * time.Second}[t.Draw(3)]
	nPeers := 2 + t.Draw(4)
	nTx := 1 + t.Draw(6)
	steps := 5 + t.Draw(60)
	m := bitcoin_reader.NewTxManager(timeout)
	// stalled deliveries: AddTx runs on its own goroutine and may be held at the marked scheduling
	// points between its locks and before it forwards the tx
	parkRate := []int{0, 4, 2}[t.Draw(3)]
	parker := bw.NewParker(func(n int) int { return t.Draw(n) }, parkRate)
	parker.Only("TxManager.AddTx between map and tx lock", "TxManager.AddTx before send")
	bitcoin_reader.SimYield = parker.Hook
	defer func() { bitcoin_reader.SimYield = nil }()
	defer parker.ReleaseAll()
	proc := nw.NewProcessor()
	m.SetTxProcessor(proc)
	m.SetTxSaver(proc)
	done := make(chan error, 1)
	go func() { done <- m.Run(ctx) }()
	interrupt := make(chan interface{})
	var peers []uuid.UUID
	for i := 0; i < nPeers; i++ {
		var id uuid.UUID
		copy(id[:], fmt.Sprintf("peer-%011d", i))
		peers = append(peers, id)
	}
	// several txids in the same bucket (same first byte) and in different ones
	var txs []*wire.MsgTx
	var ids []bitcoin.Hash32
	first := byte(0)
	for k := uint32(0); len(txs) < nTx; k++ {
		tx := nw.MakeTx(50000+k, 0)
		h := *tx.TxHash()
		if len(txs) == 0 {
			first = h[0]
		} else if len(txs) < 3 && h[0] != first {
			continue // force a bucket collision among the first three
		}
		txs = append(txs, tx)
		ids = append(ids, h)
	}
	spec := make([]*txSpec, nTx)
	for i := range spec {
		spec[i] = &txSpec{pending: map[int]bool{}, relevant: t.Chance(1, 2)}
	}
	proc.Relevant = func(h bitcoin.Hash32) bool {
		for i, id := range ids {
			if id == h {
				return spec[i].relevant
			}
		}
		return false
	}
	c.Event("config timeout=%v peers=%d txs=%d steps=%d", timeout, nPeers, nTx, steps)
	runStart := time.Now()
	grants := make([][]time.Time, nTx)
	type delivery06 struct {
		tx   int
		done chan struct{}
		at   time.Time
	}
	var inflight []*delivery06
	pending := make([]int, nTx) // deliveries of this tx that have started and not yet returned
	settle := func() {
		synctest.Wait()
		keep := inflight[:0]
		for _, d := range inflight {
			select {
			case <-d.done:
				sp := spec[d.tx]
				if !sp.known {
					sp.known = true
					sp.lastGrant = d.at
				}
				sp.received = true
				sp.delivered++
				pending[d.tx]--
			default:
				keep = append(keep, d)
			}
		}
		inflight = keep
	}

	grant := func(i int, now time.Time, peer int, how string) {
		s := spec[i]
		if s.received {
			c.Fail("c06.no-request-after-delivery", how, "tx%d was requested from peer%d after it had been delivered", i, peer)
		}
		for _, g := range grants[i] {
			if now.Sub(g) < timeout {
				c.Fail("c06.single-outstanding-request", how, "tx%d was requested twice within the request timeout (%v apart, timeout %v)", i, now.Sub(g), timeout)
			}
		}
		grants[i] = append(grants[i], now)
	}

	for step := 0; step < steps; step++ {
		now := time.Now()
		p := t.Draw(nPeers)
		i := t.Draw(nTx)
		s := spec[i]
		held := parker.List()
		if len(held) > 0 && t.Chance(1, 3) {
			g := held[t.Draw(len(held))]
			c.Event("release %s", g.Site)
			c.Fault("stalled-delivery-released")
			parker.Release(g)
			settle()
			continue
		}
		switch t.Weighted([]int{8, 5, 5, 6, 2}) {
		case 4: // the periodic clean-up with a cut-off before the run began: must forget nothing
			if err := m.Clean(ctx, runStart.Add(-time.Hour)); err != nil {
				c.Fail("c06.clean", "error", "Clean failed: %v", err)
			}
			c.Event("clean (cut-off before the run)")
			c.Probe("clean")
		case 0: // announcement
			got, err := m.AddTxID(ctx, peers[p], ids[i])
			want := !s.known || (!s.received && now.Sub(s.lastGrant) >= timeout)
			c.Event("peer%d announces tx%d -> %v", p, i, got)
			if pending[i] > 0 {
				// a delivery of this tx is in progress: whether it already counts is not determined
				c.Probe("announcement-during-stalled-delivery")
				if got {
					s.lastGrant = now
					delete(s.pending, p)
				} else {
					s.pending[p] = true
				}
				s.known = true
				break
			}
			if err != nil || got != want {
				c.Fail("c06.announcement-answer", fmt.Sprintf("got=%v want=%v known=%v received=%v", got, want, s.known, s.received),
					"AddTxID(peer%d, tx%d) returned (%v,%v); reference: known=%v received=%v since-last-request=%v timeout=%v", p, i, got, err, s.known, s.received, now.Sub(s.lastGrant), timeout)
			}
			if got {
				grant(i, now, p, "announcement")
				s.lastGrant = now
				delete(s.pending, p)
				if s.known {
					c.Probe("re-request-after-timeout-on-announcement")
				}
			} else if !s.received {
				s.pending[p] = true
				c.Probe("announcement-while-outstanding")
			}
			s.known = true
		case 1: // delivery (solicited or not)
			if !s.known {
				c.Probe("unsolicited-delivery")
			}
			if s.received {
				c.Probe("duplicate-delivery")
			}
			d := &delivery06{tx: i, done: make(chan struct{}), at: now}
			go func() {
				m.AddTx(ctx, interrupt, peers[p], txs[i])
				close(d.done)
			}()
			inflight = append(inflight, d)
			pending[i]++
			c.Event("peer%d delivers tx%d", p, i)
		case 2: // retry poll for one peer
			// the caller's limit is a knob too (production: 10000): a small one leaves requestable
			// transactions behind, which must stay requestable for the next poll
			max := []int{1000, 1000, 1, 2, 3}[t.Draw(5)]
			if max < 1000 {
				c.Probe("retry-poll-with-small-limit")
			}
			got, err := m.GetTxRequests(ctx, peers[p], max)
			var want []int
			uncertain := map[int]bool{}
			for j, sj := range spec {
				if pending[j] > 0 {
					uncertain[j] = true
					continue
				}
				if sj.known && !sj.received && sj.pending[p] && now.Sub(sj.lastGrant) >= timeout {
					want = append(want, j)
				}
			}
			var gotIdx []int
			for _, h := range got {
				for j, id := range ids {
					if id == h {
						gotIdx = append(gotIdx, j)
					}
				}
			}
			sort.Ints(gotIdx)
			c.Event("peer%d polls retries -> %v", p, gotIdx)
			var certain []int
			for _, j := range gotIdx {
				if uncertain[j] {
					spec[j].lastGrant = now
					delete(spec[j].pending, p)
				} else {
					certain = append(certain, j)
				}
			}
			gotAll := gotIdx
			gotIdx = certain
			wantSet := map[int]bool{}
			for _, j := range want {
				wantSet[j] = true
			}
			bad := err != nil
			cls := "extra"
			for _, j := range gotIdx {
				if !wantSet[j] {
					bad = true
				}
			}
			if len(gotAll) < max && len(gotIdx) < len(want) {
				// the limit was not reached, so nothing requestable may be left behind
				bad, cls = true, "missing"
			}
			if len(gotAll) >= max && len(gotIdx) < len(want) {
				c.Probe("retry-poll-cut-by-limit")
			}
			if bad {
				c.Fail("c06.retry-poll", cls, "GetTxRequests(peer%d, max %d) returned %v (err %v), reference says %v are requestable from this peer now", p, max, gotIdx, err, want)
			}
			for _, j := range gotIdx {
				grant(j, now, p, "retry-poll")
				spec[j].lastGrant = now
				delete(spec[j].pending, p)
				c.Probe("retry-granted")
			}
		default: // time passes; the same instant is kept with probability 1/3 (simultaneous events)
			ds := []time.Duration{0, time.Millisecond, timeout / 2, timeout - time.Nanosecond, timeout, timeout + time.Millisecond, 3 * timeout}
			d := ds[t.Draw(len(ds))]
			if d > 0 {
				time.Sleep(d)
				c.AddSimTime(int64(d))
			}
			c.Event("time +%v", d)
		}
		settle()
		// processor: exactly once for everything delivered, never for anything else
		for j, sj := range spec {
			n := proc.Count(ids[j])
			want := 0
			if sj.delivered > 0 {
				want = 1
			}
			if pending[j] > 0 {
				// deliveries in progress: at most once so far
				if n > 1 {
					c.Fail("c06.processed-exactly-once", fmt.Sprintf("count=%d during-stalled-delivery", n), "tx%d reached the processor %d times while deliveries of it were still in progress", j, n)
				}
				continue
			}
			if n != want {
				c.Fail("c06.processed-exactly-once", fmt.Sprintf("count=%d delivered=%d", n, min(sj.delivered, 3)), "tx%d reached the processor %d times after %d deliveries", j, n, sj.delivered)
			}
			sv := 0
			if sj.delivered > 0 && sj.relevant {
				sv = 1
			}
			proc2 := procSaved(proc, ids[j])
			if proc2 != sv {
				c.Fail("c06.saved-exactly-once-if-relevant", fmt.Sprintf("saved=%d relevant=%v", proc2, sj.relevant), "tx%d was saved %d times (relevant=%v, deliveries=%d)", j, proc2, sj.relevant, sj.delivered)
			}
		}
	}
	// let every stalled delivery finish, then the final count must be exact
	parker.ReleaseAll()
	settle()
	for j, sj := range spec {
		want := 0
		if sj.delivered > 0 {
			want = 1
		}
		if n := proc.Count(ids[j]); n != want || pending[j] != 0 {
			c.Fail("c06.processed-exactly-once", fmt.Sprintf("final count=%d delivered=%d", n, min(sj.delivered, 3)), "tx%d reached the processor %d times after %d deliveries (some of them stalled and overlapping)", j, n, sj.delivered)
		}
	}
	if parker.Held > 0 {
		c.Probe("run-with-stalled-deliveries")
	}
	c.Nontrivial()
	m.Stop(ctx)
	<-done
	close(interrupt)
}

func procSaved(p *nw.Processor, h bitcoin.Hash32) int {
	return p.SavedCount(h)
}

// runC06EndToEnd: several verified nodes share one manager; peers announce, deliver or ignore.
func runC06EndToEnd(c *core.Ctx) {
	t := c.T
	timeout := 2 * time.Second
	fd, endF := nw.StartF(c) // Engine F phase: nodes and manager under the statement scheduler
	defer endF()
	w := nw.New(c, nw.Options{TxManager: true, TxTimeout: timeout})
	w.FD = fd
	if fd != nil {
		w.Early = 15
	}
	nPeers := 2 + t.Draw(3)
	var peers []*nw.Peer
	w.NoDelay = true
	for i := 0; i < nPeers; i++ {
		peers = append(peers, w.AddNode(false))
	}
	w.Pump()
	for _, p := range peers {
		if !p.Node.IsReady() {
			c.Fail("c06.setup", "not-ready", "a node did not verify against the default scripted peer")
			w.Shutdown()
			return
		}
	}
	nTx := 1 + t.Draw(5)
	var txs []*wire.MsgTx
	var ids []bitcoin.Hash32
	usedBucket := map[byte]bool{}
	for k := 0; len(txs) < nTx; k++ {
		tx := nw.MakeTx(uint32(70000+k), t.Draw(50))
		h := *tx.TxHash()
		if fd != nil && usedBucket[h[0]] {
			continue // Engine F: one txid per bucket (map iteration order is not the simulation's)
		}
		usedBucket[h[0]] = true
		txs = append(txs, tx)
		ids = append(ids, h)
	}
	idx := func(h bitcoin.Hash32) int {
		for i, id := range ids {
			if id == h {
				return i
			}
		}
		return -1
	}
	delivered := make([]int, nTx)
	announced := make([]map[int]bool, nTx)
	for i := range announced {
		announced[i] = map[int]bool{}
	}
	// what each peer does when asked: deliver (classic or extended framing) or stay silent
	honest := make([]bool, nPeers)
	for i := range honest {
		honest[i] = t.Chance(2, 3)
	}
	type ask struct {
		tx, peer int
		at       time.Time
	}
	var asks []ask
	seenGetData := make([]int, nPeers)
	c.Event("config e2e peers=%d txs=%d honest=%v", nPeers, nTx, honest)
	steps := 4 + t.Draw(25)
	scan := func() {
		for pi, p := range peers {
			n := 0
			for _, msg := range p.Received {
				if msg.Cmd != wire.CmdGetData {
					continue
				}
				n++
				if n <= seenGetData[pi] {
					continue
				}
				typs, hs := nw.GetDataItems(msg.Payload)
				for k, h := range hs {
					if typs[k] != 1 {
						continue
					}
					i := idx(h)
					if i < 0 {
						c.Fail("c06.getdata-for-announced-only", "unknown-txid", "peer%d was asked for a txid nobody announced", pi)
						continue
					}
					now := time.Now()
					if !announced[i][pi] {
						c.Fail("c06.request-goes-to-announcer", "not-announcer", "tx%d was requested from peer%d, which never announced it", i, pi)
					}
					if delivered[i] > 0 {
						c.Fail("c06.no-request-after-delivery", "getdata", "tx%d was requested from peer%d after delivery", i, pi)
					}
					for _, a := range asks {
						if a.tx == i && now.Sub(a.at) < timeout-600*time.Millisecond {
							c.Fail("c06.single-outstanding-request", "getdata", "tx%d was requested from peer%d and peer%d within the request timeout", i, a.peer, pi)
						}
					}
					asks = append(asks, ask{i, pi, now})
					c.Probe("getdata-seen")
					if honest[pi] {
						b := nw.TxBytes(txs[i])
						if t.Chance(1, 3) {
							p.Send(nw.FrameExt(wire.CmdTx, b, uint64(len(b))))
						} else {
							p.Send(nw.Frame(wire.CmdTx, b))
						}
						delivered[i]++
					} else {
						c.Probe("request-ignored-by-peer")
					}
				}
			}
			seenGetData[pi] = n
		}
	}
	m := bitcoin_reader.NewNodeManager("/sim/", w.Cfg, w.Repo, w.Book)
	_ = m
	for s := 0; s < steps; s++ {
		pi := t.Draw(nPeers)
		i := t.Draw(nTx)
		switch t.Weighted([]int{6, 2, 4}) {
		case 0:
			n := 1
			hs := []bitcoin.Hash32{ids[i]}
			if t.Chance(1, 3) {
				j := t.Draw(nTx)
				if j != i {
					hs = append(hs, ids[j])
					announced[j][pi] = true
					n++
				}
			}
			announced[i][pi] = true
			peers[pi].Send(nw.Frame(wire.CmdInv, nw.InvPayload(1, hs)))
			c.Event("peer%d announces %d txs (tx%d..)", pi, n, i)
			if t.Chance(1, 3) { // another peer announces the same tx in the same instant
				pj := t.Draw(nPeers)
				announced[i][pj] = true
				peers[pj].Send(nw.Frame(wire.CmdInv, nw.InvPayload(1, []bitcoin.Hash32{ids[i]})))
				c.Probe("same-tx-announced-by-two-peers-same-instant")
			}
		case 1: // unsolicited delivery
			b := nw.TxBytes(txs[i])
			peers[pi].Send(nw.Frame(wire.CmdTx, b))
			delivered[i]++
			c.Event("peer%d delivers tx%d unsolicited", pi, i)
			c.Probe("unsolicited-delivery")
		default:
			d := []time.Duration{100 * time.Millisecond, time.Second, 3 * time.Second, 6 * time.Second}[t.Draw(4)]
			w.Advance(d)
			// the node manager's periodic retry poll: ask every node's manager glue
			for _, p := range peers {
				txids, _ := w.TxM.GetTxRequests(w.Ctx, p.Node.ID(), 1000)
				if len(txids) > 0 {
					p.Node.RequestTxs(w.Ctx, txids)
					c.Probe("retry-request-sent")
				}
			}
			c.Event("time +%v and retry poll", d)
		}
		w.Pump()
		scan()
		w.Pump()
		scan()
		for j := range ids {
			n := w.Proc.Count(ids[j])
			want := 0
			if delivered[j] > 0 {
				want = 1
			}
			if n != want {
				c.Fail("c06.processed-exactly-once", fmt.Sprintf("e2e count=%d delivered=%d", n, min(delivered[j], 3)), "tx%d reached the processor %d times after %d deliveries over the wire", j, n, delivered[j])
			}
		}
	}
	c.Nontrivial()
	w.Shutdown()
}

func init() {
	core.Register(&core.Property{
		ID: "C06", Engine: "G", Level: "exploration", Bubble: true,
		Rule: "Engine G phase: each run is one of two worlds inside a synctest bubble. (a) manager world: a real TxManager with its Run consumer and a counting processor/saver; 2-5 peers issue tape-chosen AddTxID / AddTx / GetTxRequests calls (retry polls with limit 1, 2, 3 or 1000: what a small limit leaves behind must stay requestable) over 1-6 txids (three forced into one bucket), with the fake clock held (simultaneous events) or advanced by 0, 1 ms, timeout/2, timeout-1ns, timeout, timeout+1ms, 3*timeout; every answer is compared with a sequential reference, grants are checked for at most one per txid per timeout window and none after delivery, and the processor/saver counts must be exactly one per delivered (relevant) txid after every step. (b) end-to-end world: 2-4 verified real BitcoinNodes share the manager; scripted peers send inv (also the same tx from two peers in the same instant), answer getdata (classic or extended tx) or ignore it, deliver unsolicited, and the retry poll runs as time advances; getdata messages seen by the peers are the grants; non-trivial = every run; distinct = distinct hash of the canonical event log Engine F phase (second search phase, instrumented build, see DESIGN.md 2.4): 2-4 peers on their own goroutines call AddTxID/AddTx/GetTxRequests on a real TxManager (one txid per bucket) in 1-5 phases with tape-chosen clock steps around the request timeout, while TxManager.Run forwards to the processor; the tape's scheduler chooses which goroutine executes the next statement, the poll order of selects and which goroutines stall; every call is stamped with the scheduler's global event sequence at invocation and return and the history is checked per transaction for linearizability against the sequential request rule (porcupine), then every delivered tx must have reached the processor (and saver, if relevant) exactly once",
		Real: append([]string{"TxManager (AddTxID, AddTx, GetTxRequests, Run, sendTx: real code)"}, nodeReal...), Stub: nodeStub,
		Assumptions: []string{"Engine F phase: statement granularity in tx_manager.go; one txid per bucket because the iteration order of a Go map inside GetTxRequests is not a choice the simulation owns (bucket collisions are covered by the G phase); the clock stands still within a phase", "manager calls of different peers are issued one at a time by the driver (call-granularity interleaving, including several calls at the same fake instant); deliveries (AddTx) run on their own goroutine and can be held at the two marked scheduling points (between the bucket lock and the entry lock, and before the tx is forwarded) while other calls proceed; other interleavings inside one call are not controlled by this engine",
			"the sequential reference is the property's own rule: first announcer is asked; others are remembered; after the timeout an announcement or a retry poll re-requests; nothing is requested after delivery"},
		FaultKinds:   []string{"fragmentation", "delivery-delay", "stalled-delivery-released", "schedule:goroutine-stalled"},
		ProbeNames:   []string{"history-linearizable", "linearizability-check-inconclusive", "same-tx-delivered-concurrently", "run-with-stalled-deliveries", "announcement-during-stalled-delivery", "announcement-while-outstanding", "re-request-after-timeout-on-announcement", "retry-granted", "retry-poll-with-small-limit", "retry-poll-cut-by-limit", "unsolicited-delivery", "duplicate-delivery", "getdata-seen", "request-ignored-by-peer", "retry-request-sent", "same-tx-announced-by-two-peers-same-instant"},
		Run:          runC06,
		QuickSeconds: 20, ThoroughSeconds: 600, MinRuns: 300, BatchSize: 50, RunTimeoutSeconds: 240,
		FQuickSeconds: 10, FThoroughSeconds: 300,
	})
}
