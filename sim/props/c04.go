package props

import (
	"context"
	"fmt"
	"testing/synctest"
	"time"

	"github.com/google/uuid"
	bitcoin_reader "github.com/tokenized/bitcoin_reader"
	"github.com/tokenized/logger"
	"github.com/tokenized/pkg/bitcoin"
	"github.com/tokenized/pkg/wire"

	"verif/sim/core"
	"verif/sim/model"
	bw "verif/sim/worlds/blockworld"
	nw "verif/sim/worlds/nodeworld"
)

var blockReal = []string{"BlockDownloader (Run, HandleBlock, handleBlock, Cancel, Stop: real code on its own goroutines)", "BlockManager (Run, processRequest, requestBlock, cancelDownloaders, onDownloaderCompleted: real code)",
	"tokenized/threads, pkg/merkle_proof (real dependency code)"}
var blockStub = []string{"BlockRequestor / BlockRequestCanceller (the peers serving blocks) -> simulated sources driven by the tape at call granularity", "TxProcessor and BlockTxManager -> recording, fault injecting implementation",
	"wall clock and timers -> testing/synctest fake clock"}

func runC04(c *core.Ctx) {
	t := c.T
	ctx := logger.ContextWithNoLogger(context.Background())
	n := 1 + t.Draw(24)
	if t.Chance(1, 10) {
		n = 25 + t.Draw(100)
	}
	if c.Thorough() && t.Chance(1, 20) {
		n = 1000 + t.Draw(2200)
	}
	blk := bw.MakeBlock(uint32(1+t.Draw(1<<20)), n, nw.MakeTx)
	other := bw.MakeBlock(uint32(1<<21+t.Draw(1<<20)), 1+t.Draw(3), nw.MakeTx)
	rec := bw.NewRecorder()
	relMode := t.Draw(4) // none, all, random subset, coinbase only
	for i, id := range blk.TxIDs {
		switch relMode {
		case 1:
			rec.Relevant[id] = true
		case 2:
			rec.Relevant[id] = t.Chance(1, 3)
		case 3:
			rec.Relevant[id] = i == 0
		}
	}
	for _, id := range other.TxIDs {
		rec.Relevant[id] = t.Chance(1, 2)
	}

	// the stream the source will deliver
	stream := append([]*wire.MsgTx(nil), blk.Txs...)
	header := blk.Header
	requested := blk.Hash
	announced := uint64(len(stream))
	cutAt := -1
	kinds := []string{"none", "none", "none", "drop-tx", "add-tx", "duplicate-last", "swap-txs", "alter-tx", "announced+1", "announced-1", "stream-cut", "different-header",
		"error:ProcessTx", "error:ProcessCoinbaseTx", "error:ConfirmTx", "error:AppendBlockTxIDs"}
	kind := kinds[t.Draw(len(kinds))]
	switch kind {
	case "drop-tx":
		k := t.Draw(len(stream))
		stream = append(append([]*wire.MsgTx(nil), stream[:k]...), stream[k+1:]...)
		if t.Chance(1, 2) {
			announced = uint64(len(stream)) // count consistent with what is sent
		}
	case "add-tx":
		k := t.Draw(len(stream) + 1)
		stream = append(append(append([]*wire.MsgTx(nil), stream[:k]...), other.Txs[0]), stream[k:]...)
		if t.Chance(1, 2) {
			announced = uint64(len(stream))
		}
	case "duplicate-last": // merkle malleation: odd width level, last transaction repeated
		stream = append(stream, stream[len(stream)-1])
		announced = uint64(len(stream))
	case "swap-txs":
		if len(stream) >= 2 {
			i, j := t.Draw(len(stream)), t.Draw(len(stream))
			stream[i], stream[j] = stream[j], stream[i]
		}
	case "alter-tx":
		stream[t.Draw(len(stream))] = other.Txs[0]
	case "announced+1":
		announced++
	case "announced-1":
		announced--
	case "stream-cut":
		cutAt = t.Draw(len(stream) + 1)
	case "different-header":
		if t.Chance(1, 2) {
			requested = other.Hash // we asked for another block than the one delivered
		} else {
			header = other.Header // header of another block in front of these transactions
			requested = other.Hash
		}
	case "error:ProcessTx":
		rec.FailAt["ProcessTx"] = 1 + t.Draw(len(stream))
	case "error:ProcessCoinbaseTx":
		rec.FailAt["ProcessCoinbaseTx"] = 1
	case "error:ConfirmTx":
		rec.FailAt["ConfirmTx"] = 1 + t.Draw(3)
	case "error:AppendBlockTxIDs":
		rec.FailAt["AppendBlockTxIDs"] = 1
	}
	if kind != "none" {
		c.Fault("block:" + kind)
	}
	height := 700000 + t.Draw(1000)
	// interruption of the download at a tape-chosen step
	steps := len(stream) + 2
	interruptKind := []string{"none", "none", "none", "cancel", "stop", "interrupt"}[t.Draw(6)]
	interruptAt := t.Draw(steps + 1)
	cancelSaysStarted := t.Chance(1, 2)
	if interruptKind != "none" {
		c.Fault("download:" + interruptKind)
	}
	// (drawn last so that tapes recorded before this variant existed replay unchanged)
	// merkle malleation in general: when level k of the tree has an odd number of nodes, repeating the
	// leaves under its last node gives a longer list with the same root; k = 0 is "last tx repeated".
	if kind == "duplicate-last" && t.Chance(1, 2) {
		base := stream[:len(stream)-1]
		var options [][2]int // (level, first leaf of the last node at that level)
		w, span := len(base), 1
		for w > 1 {
			if w%2 == 1 {
				options = append(options, [2]int{span, (w - 1) * span})
			}
			w = (w + 1) / 2
			span *= 2
		}
		if len(options) > 0 {
			o := options[t.Draw(len(options))]
			stream = append(append([]*wire.MsgTx(nil), base...), base[o[1]:]...)
			announced = uint64(len(stream))
			steps = len(stream) + 2
			if o[0] > 1 {
				kind = "duplicate-subtree"
				c.Fault("block:duplicate-subtree")
			}
		}
	}
	c.Event("block txs=%d relevant-mode=%d fault=%s announced=%d stream=%d cut=%d interrupt=%s@%d", n, relMode, kind, announced, len(stream), cutAt, interruptKind, interruptAt)

	bd := bitcoin_reader.NewBlockDownloader(rec, rec, requested, height)
	src := &bw.Source{Done: make(chan error, 1)}
	copy(src.ID[:], "c04-source-00001")
	bd.SetCanceller(src.ID, sourceCanceller{src, cancelSaysStarted})
	interrupt := make(chan interface{})
	runDone := make(chan error, 1)
	go func() { runDone <- bd.Run(ctx, interrupt) }()
	ch := make(chan *wire.MsgTx, 1000)
	handlerDone := make(chan error, 1)
	interrupted := false
	closed := false
	step := 0
	fire := func() {
		if interruptKind == "none" || interrupted || step != interruptAt {
			return
		}
		interrupted = true
		switch interruptKind {
		case "cancel":
			bd.Cancel(ctx)
		case "stop":
			bd.Stop(ctx)
		case "interrupt":
			close(interrupt)
		}
		c.Event("%s at step %d", interruptKind, step)
	}
	synctest.Wait()
	fire()
	step++
	// the source starts the handler, unless the request was cancelled before it started
	started := false
	if !(src.Cancelled && !src.CancelSeenStarted) {
		started = true
		src.Started = true
		go func() { handlerDone <- bd.HandleBlock(ctx, header, announced, ch) }()
	}
	synctest.Wait()
	for i, tx := range stream {
		fire()
		step++
		synctest.Wait()
		if !started || src.Cancelled || i == cutAt {
			break // a cancelled or cut stream ends here
		}
		for sent := false; !sent; {
			select {
			case ch <- tx:
				sent = true
			default:
				synctest.Wait()
				if len(handlerDone) > 0 {
					// the handler has returned (it refused the block or was cancelled) and reads no
					// more: the rest of a long stream is never consumed
					sent = true
					break
				}
				time.Sleep(time.Millisecond)
			}
		}
		if len(handlerDone) > 0 {
			break
		}
		if i%16 == 15 {
			synctest.Wait()
		}
	}
	fire()
	step++
	close(ch)
	closed = true
	_ = closed
	synctest.Wait()
	fire()

	var runErr, handlerErr error
	runReturned, handlerReturned := false, !started
	for i := 0; i < 200 && !(runReturned && handlerReturned); i++ {
		select {
		case runErr = <-runDone:
			runReturned = true
		default:
		}
		select {
		case handlerErr = <-handlerDone:
			handlerReturned = true
		default:
		}
		if !(runReturned && handlerReturned) {
			time.Sleep(time.Minute)
			c.AddSimTime(int64(time.Minute))
			synctest.Wait()
		}
	}
	c.Nontrivial()
	if !runReturned {
		c.Fail("c04.run-returns", "run-blocked", "BlockDownloader.Run had not returned after 200 simulated minutes (fault %s, interrupt %s)", kind, interruptKind)
	}
	if !handlerReturned {
		c.Fail("c04.handler-returns", "handler-blocked", "HandleBlock had not returned after 200 simulated minutes (fault %s, interrupt %s)", kind, interruptKind)
	}
	c.Event("run=%v handler=%v", errShortP(runErr), errShortP(handlerErr))

	// ---- oracle over the recorded calls
	calls := rec.Snapshot()
	var received []bitcoin.Hash32
	var confirms []bw.Call
	var coinbase, appends []bw.Call
	lastKind := ""
	for _, cl := range calls {
		switch cl.Kind {
		case "ProcessTx":
			if !cl.Err {
				received = append(received, cl.TxID)
			}
		case "ConfirmTx":
			confirms = append(confirms, cl)
		case "ProcessCoinbaseTx":
			coinbase = append(coinbase, cl)
		case "AppendBlockTxIDs":
			appends = append(appends, cl)
		}
		lastKind = cl.Kind
	}
	delivered := len(stream)
	if cutAt >= 0 {
		delivered = cutAt
	}
	streamIDs := make([]bitcoin.Hash32, 0, delivered)
	for _, tx := range stream[:delivered] {
		streamIDs = append(streamIDs, *tx.TxHash())
	}
	hashOK := *header.BlockHash() == requested
	countOK := uint64(len(received)) == announced && len(received) == delivered
	rootOK := len(received) > 0 && model.MerkleRoot(received) == header.MerkleRoot
	verified := hashOK && countOK && rootOK
	confirmedSomething := len(confirms) > 0 || len(coinbase) > 0 || len(appends) > 0
	if confirmedSomething && !verified {
		c.Fail("c04.confirm-only-verified-block", fmt.Sprintf("%s hash=%v count=%v root=%v", kind, hashOK, countOK, rootOK),
			"confirmations were issued (coinbase %d, confirm %d, append %d) although header-hash-matches=%v count-complete=%v (announced %d, received %d, stream %d) merkle-root-matches=%v; fault %s",
			len(coinbase), len(confirms), len(appends), hashOK, countOK, announced, len(received), delivered, rootOK, kind)
	}
	if verified {
		c.Probe("block-verified")
	}
	if confirmedSomething {
		c.Probe("confirmations-issued")
		// coinbase first
		if len(coinbase) != 1 || coinbase[0].TxID != received[0] || coinbase[0].Block != requested {
			c.Fail("c04.coinbase", "wrong-coinbase", "ProcessCoinbaseTx calls: %d (want exactly one, for the first transaction and the requested block)", len(coinbase))
		}
		// confirmations: exactly the relevant transactions, once each, in block order
		var wantConf []bitcoin.Hash32
		for _, id := range received {
			if rec.Relevant[id] {
				wantConf = append(wantConf, id)
			}
		}
		complete := rec.FailAt["ConfirmTx"] == 0 && rec.FailAt["ProcessCoinbaseTx"] == 0 && interruptKind == "none"
		for i, cf := range confirms {
			if i >= len(wantConf) || cf.TxID != wantConf[i] {
				c.Fail("c04.confirmations-exact", "wrong-or-out-of-order", "confirmation %d is for %s, want the %d-th relevant transaction of the block in block order", i, cf.TxID, i)
				break
			}
			if cf.Height != height {
				c.Fail("c04.confirmations-exact", "wrong-height", "confirmation carries height %d, want %d", cf.Height, height)
			}
		}
		if complete && len(confirms) != len(wantConf) {
			c.Fail("c04.confirmations-exact", fmt.Sprintf("count %+d", clampI(len(confirms)-len(wantConf))), "%d confirmations, want %d (the relevant transactions of the block)", len(confirms), len(wantConf))
		}
		seen := map[bitcoin.Hash32]bool{}
		for _, cf := range confirms {
			if seen[cf.TxID] {
				c.Fail("c04.confirmed-once", "duplicate-confirmation:"+kind, "transaction %s was confirmed twice for one block (fault %s)", cf.TxID, kind)
			}
			seen[cf.TxID] = true
		}
		// proofs
		for _, cf := range confirms {
			p := cf.Proof
			if p == nil || p.BlockHeader == nil {
				c.Fail("c04.proof-valid", "no-header", "confirmation of %s carries no block header", cf.TxID)
				continue
			}
			if *p.BlockHeader.BlockHash() != requested {
				c.Fail("c04.proof-valid", "wrong-header", "proof for %s carries a header that is not the requested block", cf.TxID)
			}
			if err := p.Verify(); err != nil {
				c.Fail("c04.proof-valid", "verify-fails", "proof for %s does not verify: %v", cf.TxID, err)
				continue
			}
			if p.GetTxID() == nil || *p.GetTxID() != cf.TxID {
				c.Fail("c04.proof-valid", "wrong-txid", "proof for %s is a proof for another txid", cf.TxID)
				continue
			}
			// independent recomputation: position and path from the reference tree
			if p.Index < 0 || p.Index >= len(received) || received[p.Index] != cf.TxID {
				c.Fail("c04.proof-valid", "wrong-index", "proof for %s has index %d, which is not that transaction's position", cf.TxID, p.Index)
				continue
			}
			path, dup := model.MerklePath(received, p.Index)
			var want []bitcoin.Hash32
			for i, h := range path {
				if !dup[i] {
					want = append(want, h)
				}
			}
			ok := len(want) == len(p.Path) || len(path) == len(p.Path)
			if ok {
				ref := want
				if len(path) == len(p.Path) {
					ref = path
				}
				for i := range ref {
					if ref[i] != p.Path[i] {
						ok = false
					}
				}
			}
			if !ok {
				c.Fail("c04.proof-valid", "path-differs-from-reference", "proof path for %s (index %d) differs from the reference merkle path", cf.TxID, p.Index)
			}
			if model.RootFromPath(cf.TxID, p.Index, path) != header.MerkleRoot {
				c.Fail("c04.proof-valid", "reference-root", "reference path for %s does not reach the header's merkle root", cf.TxID)
			}
		}
		// block txids recorded last, with the same list
		if len(appends) > 0 {
			if lastKind != "AppendBlockTxIDs" || len(appends) != 1 {
				c.Fail("c04.append-last", "not-last", "AppendBlockTxIDs was not the last call")
			}
			if appends[0].Block != requested || !sameHashes(appends[0].List, wantConf) {
				c.Fail("c04.append-last", "wrong-list", "AppendBlockTxIDs recorded %d txids for %s, want the %d relevant ones of the requested block", len(appends[0].List), appends[0].Block, len(wantConf))
			}
		}
	}
	success := len(appends) == 1 && !appends[0].Err
	if (runErr == nil) != success && runReturned && interruptKind == "none" {
		c.Fail("c04.result-reports-outcome", fmt.Sprintf("run-nil=%v processed=%v", runErr == nil, success), "Run returned %v but the block was%s processed to the end (fault %s)", runErr, map[bool]string{true: "", false: " not"}[success], kind)
	}
	if kind == "none" && interruptKind == "none" && !success {
		c.Fail("c04.clean-block-is-processed", "not-processed", "an uncorrupted, uninterrupted block was not processed: run=%v handler=%v", runErr, handlerErr)
	}
	if !interrupted || interruptKind != "interrupt" {
		close(interrupt)
	}
}

type sourceCanceller struct {
	s           *bw.Source
	saysStarted bool
}

func (c sourceCanceller) ID() uuid.UUID { return c.s.ID }
func (c sourceCanceller) CancelBlockRequest(ctx context.Context, hash bitcoin.Hash32) bool {
	c.s.Cancelled = true
	c.s.CancelSeenStarted = c.s.Started
	return c.s.Started
}

func sameHashes(a, b []bitcoin.Hash32) bool {
	if len(a) != len(b) {
		return false
	}
	for i := range a {
		if a[i] != b[i] {
			return false
		}
	}
	return true
}

func clampI(d int) int {
	if d > 2 {
		return 2
	}
	if d < -2 {
		return -2
	}
	return d
}

func errShortP(err error) string {
	if err == nil {
		return "nil"
	}
	s := err.Error()
	if len(s) > 60 {
		s = s[:60]
	}
	return s
}

func init() {
	core.Register(&core.Property{
		ID: "C04", Engine: "G", Level: "exploration", Bubble: true,
		Rule: "each run: a real BlockDownloader (Run on its own goroutine, HandleBlock on the source's goroutine) receives a block of 1-125 (thorough: up to 3200) transactions with a tape-chosen relevant subset through the transaction channel, with one tape-chosen corruption (dropped / added / duplicated-last or duplicated-subtree (merkle malleation) / swapped / altered transaction, announced count +-1, stream cut at k, different header or requested hash, processor or store error at call k) and optionally Cancel, Stop or interrupt at a tape-chosen step of the hand-over; the recorded processor/store calls are checked against a reference (header hash, count, independent merkle root, relevant set in block order, independent merkle paths); non-trivial = every run; distinct = distinct hash of the canonical event log",
		Real: blockReal, Stub: blockStub,
		Assumptions:  []string{"the source hands transactions over one at a time at driver-chosen steps; goroutine order between two quiescent points is the Go runtime's; all oracles are order independent"},
		FaultKinds:   []string{"block:drop-tx", "block:add-tx", "block:duplicate-last", "block:duplicate-subtree", "block:swap-txs", "block:alter-tx", "block:announced+1", "block:announced-1", "block:stream-cut", "block:different-header", "block:error:ProcessTx", "block:error:ProcessCoinbaseTx", "block:error:ConfirmTx", "block:error:AppendBlockTxIDs", "download:cancel", "download:stop", "download:interrupt"},
		ProbeNames:   []string{"block-verified", "confirmations-issued"},
		Run:          runC04,
		QuickSeconds: 20, ThoroughSeconds: 600, MinRuns: 300, BatchSize: 50, RunTimeoutSeconds: 240,
	})
}
