package props

import (
	"verif/sim/core"
	"verif/sim/worlds/peersworld"
)

func init() {
	core.Register(&core.Property{
		ID: "C20", Engine: "S", Level: "fault_enumeration", Bubble: true,
		Rule: "Engine S phase: each run: a tape-generated sequence of Add/UpdateScore/UpdateTime/Get/Count/Save/Load/Clear over an address pool (empty, 1 byte, 64 KiB, non-ASCII, case variants, trailing blank, control bytes) with positive/negative/extreme score deltas, under a fake clock advanced by tape-chosen sleeps; the book is compared with an ordered-list reference after every operation; for sampled states EVERY prefix of the saved file (every cut near every record boundary for files over 1500 bytes) and mutated files (negative/huge count and address length, random bytes, flipped byte, version) are loaded into fresh repositories; non-trivial = the run contains a save+load, a prefix enumeration or a damaged-file load Engine F phase (second search phase, instrumented build, see DESIGN.md 2.4): 2-4 concurrent callers on their own goroutines perform 1-3 tape-chosen calls each (Add/UpdateScore/UpdateTime/Get/Count/Save/Load/Clear over 2-5 addresses) per phase, 1-4 phases with clock steps between; the tape's scheduler chooses which goroutine executes the next statement of peers.go; the recorded history (invocation/return stamped with the scheduler's event sequence, plus a final sequential Get) is checked for linearizability against a sequential address book with its saved copy (porcupine)",
		Real: []string{"StoragePeerRepository (Add, Get, UpdateScore, UpdateTime, Count, Save, Load, Clear, readPeer/write: real code)"},
		Stub: []string{"storage.Storage -> simstore", "wall clock -> testing/synctest fake clock", "math/rand shuffle in Get: seeded from the fake clock (godebug randseednop=0); results compared as sets"},
		Assumptions: []string{"Engine F phase: statement granularity in peers.go; the storage is the simulated disk, atomic per call; the clock stands still within a phase", "Engine S phase: single caller at a time in this engine (every method holds the repository lock from entry to exit, so an interleaving of callers is an order of calls); worker processes run under a 4 GiB address-space limit (RLIMIT_AS) so that an allocation sized from a corrupt count field (16 GiB) aborts deterministically, as it would on a small host, instead of exhausting this machine",
			"record boundaries are obtained black-box from the lengths of files saved with the first j peers"},
		FaultKinds: []string{"schedule:goroutine-stalled", "file-cut-short", "damaged-file:count-negative", "damaged-file:count-huge", "damaged-file:addrlen-negative", "damaged-file:addrlen-large", "damaged-file:random-bytes", "damaged-file:flip-byte", "damaged-file:version", "damaged-file:count-small"},
		ProbeNames: []string{"add-existing-address", "negative-score", "get-unbounded", "get-proper-subset", "save", "save+load", "prefixes-with>=3-peers", "history-linearizable", "linearizability-check-inconclusive"},
		Run: func(c *core.Ctx) {
			if core.FAvailable() {
				runC20F(c) // Engine F phase (instrumented build): concurrent callers
				return
			}
			peersworld.Run(c)
		},
		QuickSeconds: 20, ThoroughSeconds: 600, MinRuns: 500, BatchSize: 50, MemLimitMB: 4096,
		FQuickSeconds: 10, FThoroughSeconds: 300,
	})
}
