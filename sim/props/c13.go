package props

import (
	"context"
	"fmt"
	"time"

	"github.com/google/uuid"
	"github.com/pkg/errors"
	bitcoin_reader "github.com/tokenized/bitcoin_reader"
	"github.com/tokenized/bitcoin_reader/headers"
	"github.com/tokenized/pkg/bitcoin"
	"github.com/tokenized/pkg/wire"

	"verif/sim/core"
	"verif/sim/model"
	nw "verif/sim/worlds/nodeworld"
)

var nodeReal = []string{"BitcoinNode (handshake, verification, handlers, message framing, ping, block/tx handling: real code on its own goroutines)",
	"headers.Repository, StoragePeerRepository, TxManager (real code behind recording wrappers)", "tokenized/threads, pkg/wire (real dependency code)"}
var nodeStub = []string{"net.Conn -> simconn (simulator-owned byte pipe; chunking, delay, close chosen by the tape)", "remote peer -> scripted state machine evaluated by the driver at quiescent points",
	"wall clock and timers -> testing/synctest fake clock", "TxProcessor/TxSaver -> counting recorder", "storage -> simstore"}

// preVerificationMessage returns one well-formed message a peer may send at any time.
var sentVersionFlag, sentVerackFlag *bool

func preVerificationMessage(c *core.Ctx, w *nw.World, announced *[]bitcoin.Hash32, k int) ([]byte, string) {
	t := c.T
	switch t.Draw(14) {
	case 0: // headers that would connect to our chain
		g, _ := w.Repo.Header(w.Ctx, w.Repo.Height())
		h := &wire.BlockHeader{Version: 1, PrevBlock: *g.BlockHash(), Timestamp: g.Timestamp + 600, Bits: 0x1d00ffff, Nonce: uint32(k)}
		return nw.Frame(wire.CmdHeaders, nw.HeadersPayload([]*wire.BlockHeader{h})), "headers(connecting)"
	case 1:
		h := &wire.BlockHeader{Version: 1, Timestamp: 1500000000, Bits: 0x1d00ffff, Nonce: uint32(k)}
		h.PrevBlock[3] = 9
		return nw.Frame(wire.CmdHeaders, nw.HeadersPayload([]*wire.BlockHeader{h, h})), "headers(unknown)"
	case 2:
		return nw.Frame(wire.CmdAddr, nw.AddrPayload(1+t.Draw(20), uint32(k))), "addr"
	case 3:
		var hs []bitcoin.Hash32
		for i := 0; i < 1+t.Draw(4); i++ {
			h := model.DoubleSHA([]byte(fmt.Sprintf("announced-%d-%d", k, i)))
			hs = append(hs, h)
			*announced = append(*announced, h)
		}
		return nw.Frame(wire.CmdInv, nw.InvPayload(1, hs)), "inv"
	case 4:
		tx := nw.MakeTx(uint32(1000+k), t.Draw(200))
		*announced = append(*announced, *tx.TxHash())
		return nw.Frame(wire.CmdTx, nw.TxBytes(tx)), "tx"
	case 5:
		tx := nw.MakeTx(uint32(2000+k), 0)
		h := &wire.BlockHeader{Version: 1, Timestamp: 1500000000, Bits: 0x1d00ffff, Nonce: uint32(k), MerkleRoot: *tx.TxHash()}
		return nw.Frame(wire.CmdBlock, nw.BlockPayload(h, 1, []*wire.MsgTx{tx})), "block"
	case 6:
		tx := nw.MakeTx(uint32(3000+k), t.Draw(300))
		*announced = append(*announced, *tx.TxHash())
		b := nw.TxBytes(tx)
		return nw.FrameExt(wire.CmdTx, b, uint64(len(b))), "extmsg(tx)"
	case 7:
		tx := nw.MakeTx(uint32(4000+k), 0)
		h := &wire.BlockHeader{Version: 1, Timestamp: 1500000000, Bits: 0x1d00ffff, Nonce: uint32(k), MerkleRoot: *tx.TxHash()}
		b := nw.BlockPayload(h, 1, []*wire.MsgTx{tx})
		return nw.FrameExt(wire.CmdBlock, b, uint64(len(b))), "extmsg(block)"
	case 8:
		b := make([]byte, t.Draw(300))
		return nw.FrameExt("whatever", b, uint64(len(b))), "extmsg(unknown)"
	case 9:
		return nw.Frame(wire.CmdGetAddr, nil), "getaddr"
	case 10:
		return nw.Frame(wire.CmdPing, nw.PingPayload(uint64(k))), "ping"
	case 11:
		*sentVersionFlag = true
		return nw.Frame(wire.CmdVersion, nw.VersionPayload(100)), "version(repeat)"
	case 12:
		*sentVerackFlag = true
		return nw.Frame(wire.CmdVerAck, nil), "verack(repeat)"
	default:
		cmds := []string{"feefilter", "mempool", "sendcmpct", "notfound", "getdata", "getheaders"}
		return nw.Frame(cmds[t.Draw(len(cmds))], make([]byte, t.Draw(100))), "unhandled"
	}
}

// checkUnverified asserts the C13 invariant at a quiescent point.
func checkUnverified(c *core.Ctx, w *nw.World, p *nw.Peer, when string) {
	for _, call := range w.Rec.Calls() {
		if call.Verified || call.Node != p.ID {
			continue
		}
		switch call.Name {
		case "headers.ProcessHeader", "headers.GetLocatorHashes", "peers.Add", "peers.UpdateScore", "peers.Get", "peers.UpdateTime":
			c.Fail("c13.nothing-reaches-repositories-before-verification", call.Name, "%s was called for a peer that is not verified (%s)", call.Name, when)
		}
	}
	if p.Node.Verified() {
		return
	}
	if n := w.Proc.Total(); n != 0 {
		c.Fail("c13.nothing-reaches-tx-processor-before-verification", "processed", "%d transactions reached the processor from an unverified peer (%s)", n, when)
	}
	if p.HasCmd(wire.CmdGetData) {
		c.Fail("c13.no-requests-to-unverified-peer", "getdata", "the node sent getdata to an unverified peer (%s)", when)
	}
	if p.CountCmd(wire.CmdGetHeaders) > 1 {
		c.Fail("c13.no-requests-to-unverified-peer", "getheaders", "the node sent %d getheaders to an unverified peer (only the verification request is allowed) (%s)", p.CountCmd(wire.CmdGetHeaders), when)
	}
	if p.Node.IsReady() {
		c.Fail("c13.not-ready-before-verification", "ready", "IsReady() is true for an unverified peer (%s)", when)
	}
}

func runC13(c *core.Ctx) {
	t := c.T
	verifyOnly := t.Chance(1, 3)
	withTx := t.Chance(2, 3)
	fd, endF := nw.StartF(c) // Engine F phase: the node's goroutines under the statement scheduler
	defer endF()
	w := nw.New(c, nw.Options{TxManager: withTx})
	w.FD = fd
	if fd != nil {
		w.Early = 15
	}
	c.Event("config verifyOnly=%v txManager=%v", verifyOnly, withTx)

	if t.Chance(1, 5) {
		runC13Manager(c, w, withTx)
		return
	}

	p := w.AddNode(verifyOnly)
	p.AutoVersion = false
	p.VerifyReply = nil
	var announced []bitcoin.Hash32
	k := 0
	sentVersion, sentVerack := false, false
	sentVersionFlag, sentVerackFlag = &sentVersion, &sentVerack
	burst := func(stage string) {
		n := t.Draw(4)
		for i := 0; i < n; i++ {
			k++
			b, name := preVerificationMessage(c, w, &announced, k)
			c.Event("peer sends %s (%s)", name, stage)
			c.Probe("pre-verification:" + name)
			p.Send(b)
		}
		w.Pump()
		checkUnverified(c, w, p, stage)
	}

	w.Settle() // node sends its version
	burst("before version")
	order := t.Draw(3) // 0: version then verack, 1: verack first, 2: version only (no verack)
	switch order {
	case 0:
		p.Send(nw.Frame(wire.CmdVersion, nw.VersionPayload(int32(t.Draw(800000)))))
		sentVersion = true
		w.Pump()
		burst("between version and verack")
		p.Send(nw.Frame(wire.CmdVerAck, nil))
		sentVerack = true
	case 1:
		c.Probe("verack-before-version")
		p.Send(nw.Frame(wire.CmdVerAck, nil))
		sentVerack = true
		w.Pump()
		burst("between verack and version")
		p.Send(nw.Frame(wire.CmdVersion, nw.VersionPayload(0)))
		sentVersion = true
	case 2:
		c.Probe("no-verack")
		p.Send(nw.Frame(wire.CmdVersion, nw.VersionPayload(0)))
		sentVersion = true
	}
	w.Pump()
	checkUnverified(c, w, p, "after handshake messages")
	burst("after handshake, before verification")

	// the handshake is complete when the peer has sent both its version and its verack; this is the
	// script's own knowledge, not the node's flag
	handshook := sentVersion && sentVerack
	if handshook {
		c.Probe("handshake-complete")
	}
	if p.Node.HandshakeIsComplete() && !handshook {
		c.Fail("c13.handshake-needs-version-and-verack", fmt.Sprintf("version=%v verack=%v", sentVersion, sentVerack), "the node treats the handshake as complete although the peer sent version=%v verack=%v", sentVersion, sentVerack)
	}
	// An earlier headers message after the handshake already counted as the (failed) verification
	// reply, and a headers message before it desynchronised the stream: the node is gone then.
	alive := !p.Returned && !p.Conn.LocallyClosed()
	if !alive {
		c.Probe("node-gone-before-verification-reply")
	}
	// the verification reply
	replyKind := t.Draw(7)
	names := []string{"bsv-split-header", "bsv-split-header+more", "bch-split-header", "random-header", "zero-headers", "nonzero-tx-count", "silence"}
	c.Event("verification reply: %s", names[replyKind])
	c.Probe("verify-reply:" + names[replyKind])
	valid := false
	switch replyKind {
	case 0:
		p.Send(nw.Frame(wire.CmdHeaders, nw.HeadersPayload([]*wire.BlockHeader{headers.MainNetRequiredHeader})))
		valid = true
	case 1:
		hs := []*wire.BlockHeader{headers.MainNetRequiredHeader}
		prev := *headers.MainNetRequiredHeader.BlockHash()
		for i := 0; i < 1+t.Draw(30); i++ {
			h := &wire.BlockHeader{Version: 1, PrevBlock: prev, Timestamp: 1542305817 + uint32(600*i), Bits: 0x18021fdb, Nonce: uint32(i)}
			hs = append(hs, h)
			prev = *h.BlockHash()
		}
		p.Send(nw.Frame(wire.CmdHeaders, nw.HeadersPayload(hs)))
		valid = true
	case 2:
		p.Send(nw.Frame(wire.CmdHeaders, nw.HeadersPayload([]*wire.BlockHeader{bchSplitHeader()})))
	case 3:
		h := &wire.BlockHeader{Version: 1, Timestamp: 1600000000, Bits: 0x1d00ffff, Nonce: uint32(k)}
		p.Send(nw.Frame(wire.CmdHeaders, nw.HeadersPayload([]*wire.BlockHeader{h, headers.MainNetRequiredHeader})))
	case 4:
		p.Send(nw.Frame(wire.CmdHeaders, nw.HeadersPayload(nil)))
	case 5:
		pl := nw.HeadersPayload([]*wire.BlockHeader{headers.MainNetRequiredHeader})
		pl[len(pl)-1] = 1
		p.Send(nw.Frame(wire.CmdHeaders, pl))
	}
	w.Pump()
	w.Advance(time.Duration(1+t.Draw(20)) * time.Second)

	expectVerified := valid && handshook && alive
	if p.Node.Verified() != expectVerified {
		c.Fail("c13.verified-iff-handshake-and-bsv-header", fmt.Sprintf("verified=%v handshake=%v reply=%s", p.Node.Verified(), handshook, names[replyKind]),
			"Verified()=%v but handshake complete=%v and the verification reply was %s", p.Node.Verified(), handshook, names[replyKind])
	}
	checkUnverified(c, w, p, "after verification reply "+names[replyKind])
	if expectVerified {
		c.Nontrivial()
		if verifyOnly {
			if !p.Conn.LocallyClosed() {
				c.Fail("c13.verify-only-disconnects", "still-connected", "a verify-only node is still connected after successful verification")
			}
			if w.Rec.Count("headers.ProcessHeader") != 0 || p.HasCmd(wire.CmdGetData) || p.CountCmd(wire.CmdGetHeaders) > 1 {
				c.Fail("c13.verify-only-disconnects", "tracking-ran", "a verify-only node ran tracking handlers or sent requests after verification")
			}
			c.Probe("verify-only-disconnected")
		} else {
			// positive control: now the same kind of traffic does reach the repositories
			g, _ := w.Repo.Header(w.Ctx, w.Repo.Height())
			h := &wire.BlockHeader{Version: 1, PrevBlock: *g.BlockHash(), Timestamp: g.Timestamp + 600, Bits: 0x1d00ffff, Nonce: 424242}
			p.Send(nw.Frame(wire.CmdHeaders, nw.HeadersPayload([]*wire.BlockHeader{h})), nw.Frame(wire.CmdAddr, nw.AddrPayload(3, 7)))
			w.Pump()
			if w.Rec.Count("headers.ProcessHeader") > 0 && w.Rec.Count("peers.Add") > 0 {
				c.Probe("post-verification-traffic-reaches-repositories")
			}
		}
	} else if replyKind != 6 && handshook && alive {
		c.Nontrivial()
		if !p.Conn.LocallyClosed() && !p.Returned {
			c.Fail("c13.unverifiable-peer-disconnected", names[replyKind], "after the reply %q the peer is still connected", names[replyKind])
		}
	} else {
		c.Nontrivial()
	}
	// every transaction the peer announced or delivered while unverified must still be unknown
	if w.TxM != nil && !p.Node.Verified() {
		for _, h := range announced {
			ok, _ := w.TxM.AddTxID(w.Ctx, uuid.New(), h)
			if !ok {
				c.Fail("c13.nothing-reaches-tx-manager-before-verification", "txid-known", "txid %s announced by an unverified peer is known to the transaction manager", h)
				break
			}
		}
	}
	w.Shutdown()
}

// runC13Manager: unverified nodes held by a NodeManager are never selected to serve requests.
func runC13Manager(c *core.Ctx, w *nw.World, withTx bool) {
	t := c.T
	m := bitcoin_reader.NewNodeManager("/sim/", w.Cfg, w.Repo, w.Book)
	if withTx {
		m.SetTxManager(w.TxM)
	}
	n := 1 + t.Draw(3)
	var peers []*nw.Peer
	for i := 0; i < n; i++ {
		p := w.AttachManagedNode(m, i)
		p.VerifyReply = nil // never verified
		if t.Chance(1, 2) {
			p.AutoVersion = false // not even a handshake
		}
		peers = append(peers, p)
	}
	w.Pump()
	c.Event("manager holds %d unverified nodes", n)
	c.Probe("manager-with-unverified-nodes")
	c.Nontrivial()
	if withTx {
		for i := 0; i < 3; i++ {
			h := model.DoubleSHA([]byte(fmt.Sprintf("wanted-%d", i)))
			w.TxM.AddTxID(w.Ctx, uuid.New(), h)
		}
	}
	w.Sleep(3 * time.Second)
	hash := w.Repo.LastHash()
	_, err := m.RequestBlock(w.Ctx, hash, func(ctx2 context.Context, header *wire.BlockHeader, txCount uint64, txChannel <-chan *wire.MsgTx) error {
		return nil
	}, func(ctx2 context.Context) {})
	c.Event("RequestBlock -> %v", err)
	if errors.Cause(err) != bitcoin_reader.ErrNodeNotAvailable {
		c.Fail("c13.unverified-node-not-selected", "request-block", "RequestBlock with only unverified nodes returned %v, want ErrNodeNotAvailable", err)
	}
	m.RequestHeaders(w.Ctx)
	m.RequestTxs(w.Ctx)
	w.Pump()
	for _, p := range peers {
		if p.HasCmd(wire.CmdGetData) || p.CountCmd(wire.CmdGetHeaders) > 1 {
			c.Fail("c13.unverified-node-not-selected", "request-sent", "an unverified node was sent a request by the node manager (getdata=%d getheaders=%d)", p.CountCmd(wire.CmdGetData), p.CountCmd(wire.CmdGetHeaders))
		}
	}
	m.Stop(w.Ctx)
	w.Shutdown()
	m.Wait(w.Ctx)
}

func bchSplitHeader() *wire.BlockHeader {
	prev, _ := bitcoin.NewHash32FromStr("00000000000000000102d94fde9bd0807a2cc7582fe85dd6349b73ce4e8d9322")
	mr, _ := bitcoin.NewHash32FromStr("1cf31105bd6b1b4dba9ae55290ec06fff15b4567ec62a6e3863409bb3efd1944")
	return &wire.BlockHeader{Version: 0x20000000, PrevBlock: *prev, MerkleRoot: *mr, Timestamp: 1542304936, Bits: 402792411, Nonce: 3911120513}
}

func init() {
	core.Register(&core.Property{
		ID: "C13", Engine: "G", Level: "exploration", Bubble: true,
		Rule: "each run: one real BitcoinNode (full or verify-only, with or without a transaction manager) over a simulated connection inside a synctest bubble; the scripted peer sends tape-chosen well-formed messages (headers connecting or not, addr, inv, tx, block, extended tx/block/unknown, getaddr, ping, repeated version/verack, unhandled commands) before version, between version and verack (or verack first, or no verack), and after the handshake before verification, delivered in tape-chosen fragments and delays; then one of 7 verification replies; 1 run in 5 instead puts 1-3 unverified nodes under a real NodeManager and asks it for headers, transactions and a block; non-trivial = the run reached a verification outcome or the manager scenario; distinct = distinct hash of the canonical event log Engine F phase (second search phase, instrumented build, see DESIGN.md 2.4): the same world with the node's goroutines (read loop, per-message handler goroutines, handshake and verification, ping loop, outgoing queue) under the tape's statement-level scheduler between the delivered chunks; a stalled goroutine resumes when nothing else can run; everything runs to rest before the state is judged",
		Real: nodeReal, Stub: nodeStub,
		Assumptions: []string{"goroutine order between two quiescent points is the Go runtime's (GOMAXPROCS=1 in workers); every oracle is a safety invariant over recorded calls and messages, independent of that order",
			"the repository spies read Verified() of the owning node at call time"},
		FaultKinds: []string{"fragmentation", "delivery-delay"},
		ProbeNames: []string{"handshake-complete", "verack-before-version", "no-verack", "verify-only-disconnected", "post-verification-traffic-reaches-repositories", "manager-with-unverified-nodes",
			"verify-reply:bsv-split-header", "verify-reply:bsv-split-header+more", "verify-reply:bch-split-header", "verify-reply:random-header", "verify-reply:zero-headers", "verify-reply:nonzero-tx-count", "verify-reply:silence",
			"pre-verification:headers(connecting)", "pre-verification:inv", "pre-verification:tx", "pre-verification:block", "pre-verification:extmsg(tx)", "pre-verification:extmsg(block)", "pre-verification:addr"},
		Run:          runC13,
		QuickSeconds: 20, ThoroughSeconds: 600, MinRuns: 300, BatchSize: 50, RunTimeoutSeconds: 180, FQuickSeconds: 12, FThoroughSeconds: 300,
	})
}
