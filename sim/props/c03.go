package props

import (
	"context"
	"fmt"
	"math/big"
	"time"

	"github.com/tokenized/bitcoin_reader/headers"
	"github.com/tokenized/logger"
	"github.com/tokenized/pkg/bitcoin"
	"github.com/tokenized/pkg/wire"

	"verif/sim/core"
	"verif/sim/fixtures"
	"verif/sim/model"
	"verif/sim/simstore"
	hw "verif/sim/worlds/headersworld"
	nw "verif/sim/worlds/nodeworld"
)

const splitHeight = 556767 // from the property text

func runC03(c *core.Ctx) {
	if c.T.Chance(1, 2) {
		runC03Peer(c)
		return
	}
	if c.T.Chance(1, 3) {
		// (c) simulated-split world: the headers world (forks, reorganisations, Clean, Save, restart,
		// small prune depths) with chain splits configured at tape-chosen low heights through the verif
		// hook: the other chain's first header must be refused on every branch and after every
		// consolidation, reload and reorganisation, and nothing else may change
		c.Probe("simulated-split-world")
		hw.Run(c, hw.Opts{Groups: map[string]bool{"c08": true, "c01": true, "c09": true}, MinSteps: 6, MaxSteps: 60, SmallPrune: true,
			WMint: 60, WDeliver: 25, WClean: 8, WSave: 3, WReload: 4, WAdversarial: 10, WSplit: 120})
		return
	}
	t := c.T
	ctx := logger.ContextWithNoLogger(context.Background())
	f556, _, err := fixtures.Load()
	if err != nil {
		panic(err)
	}
	real := f556.Headers
	bsv := real[splitHeight-f556.Start]
	bsvHash := model.HeaderHash(bsv)
	bch := bchSplitHeader()
	store := simstore.New()
	cfg := headers.DefaultConfig()
	newRepo := func() *headers.Repository {
		r := headers.NewRepository(cfg, store)
		r.DisableDifficulty() // forks are synthetic; split protection stays on (production)
		return r
	}
	repo := newRepo()
	// start a few hundred blocks below the split so that a run is cheap
	startIdx := splitHeight - f556.Start - 20 - t.Draw(120)
	startWork := new(big.Int).Set(f556.Work)
	for i := 0; i < startIdx; i++ {
		startWork.Add(startWork, model.WorkForBits(real[i].Bits))
	}
	repo.MockLatest(ctx, real[startIdx], f556.Start+startIdx, new(big.Int).Add(startWork, model.WorkForBits(real[startIdx].Bits)))
	next := startIdx + 1 // next real header to deliver
	heightOf := map[bitcoin.Hash32]int{model.HeaderHash(real[startIdx]): f556.Start + startIdx}
	type offered struct {
		h    *wire.BlockHeader
		hash bitcoin.Hash32
		what string
	}
	var at767 []offered
	var synthTips []*wire.BlockHeader
	nonce := uint32(0)
	submit := func(h *wire.BlockHeader, what string) string {
		err := repo.ProcessHeader(ctx, h)
		v := hw.Verdict(err)
		hash := model.HeaderHash(h)
		ph, ok := heightOf[h.PrevBlock]
		height := -1
		if ok {
			height = ph + 1
			if v == "ok" {
				heightOf[hash] = height
			}
		}
		c.Event("submit %s (height %d) -> %s", what, height, v)
		if height == splitHeight || what == "bsv" || what == "bch" {
			at767 = append(at767, offered{h, hash, what})
		}
		switch what {
		case "bch":
			c.Probe("bch-offered")
			if v != "wrong-chain" {
				c.Fail("c03.bch-refused-as-wrong-chain", "verdict:"+v, "the BCH split header was answered %q (parent known: %v)", v, ok)
			}
		case "bsv":
			if ok && v != "ok" {
				c.Fail("c03.bsv-accepted", "verdict:"+v, "the BSV split header was answered %q although its parent is known", v)
			}
			if ok {
				c.Probe("bsv-accepted")
			}
		default:
			if height == splitHeight && v == "ok" {
				c.Fail("c03.only-bsv-at-split-height", "accepted:"+what, "a header other than the BSV split header (%s) was accepted at height %d", what, splitHeight)
			}
			if height == splitHeight {
				c.Probe("impostor-at-split-height:" + what)
			}
		}
		return v
	}
	synth := func(parent *wire.BlockHeader) *wire.BlockHeader {
		nonce++
		return &wire.BlockHeader{Version: 0x20000000, PrevBlock: model.HeaderHash(parent), Timestamp: parent.Timestamp + 600, Bits: parent.Bits, Nonce: nonce}
	}
	check := func() {
		for _, o := range at767 {
			hh := repo.HashHeight(o.hash)
			if hh != -1 && o.hash != bsvHash {
				c.Fail("c03.only-bsv-at-split-height", "known:"+o.what, "header %s offered as %s is known at height %d; only the BSV split header may be accepted at %d", o.hash, o.what, hh, splitHeight)
			}
		}
		if repo.Height() >= splitHeight {
			h, err := repo.Hash(ctx, splitHeight)
			if err != nil || *h != bsvHash {
				c.Fail("c03.only-bsv-at-split-height", "best-chain", "Hash(%d) is %v (err %v), want the BSV split header", splitHeight, h, err)
			}
		}
	}
	steps := 20 + t.Draw(200)
	c.Event("config start=%d steps=%d", f556.Start+startIdx, steps)
	for s := 0; s < steps; s++ {
		switch t.Weighted([]int{30, 6, 6, 5, 5, 4, 0, 0}) {
		case 0: // the real chain advances
			if next < len(real) && next < splitHeight-f556.Start+40 {
				what := "real"
				if next == splitHeight-f556.Start {
					what = "bsv"
				}
				submit(real[next], what)
				next++
			}
		case 1: // a synthetic fork off the real chain a few blocks below the split, grown towards it
			lo := splitHeight - f556.Start - 8
			if next-1 >= lo {
				i := lo + t.Draw(min(next-1, splitHeight-f556.Start-1)-lo+1)
				h := synth(real[i])
				submit(h, "fork-first")
				synthTips = append(synthTips, h)
				c.Probe("fork-below-split")
			}
		case 2: // grow a synthetic fork (possibly across the split height)
			if len(synthTips) > 0 {
				i := t.Draw(len(synthTips))
				h := synth(synthTips[i])
				if submit(h, "fork-grow") == "ok" {
					synthTips[i] = h
				}
			}
		case 3: // impostor at the split height on the real chain
			if next-1 >= splitHeight-f556.Start-1 {
				submit(synth(real[splitHeight-f556.Start-1]), "impostor")
			}
		case 4:
			submit(bch, "bch")
		case 5:
			submit(bsv, "bsv")
		case 6:
			if err := repo.Clean(ctx); err != nil {
				c.Fail("c03.maintenance", "clean-error", "Clean failed: %v", err)
			}
			c.Event("clean")
		case 7:
			if err := repo.Save(ctx); err != nil {
				c.Fail("c03.maintenance", "save-error", "Save failed: %v", err)
				break
			}
			r2 := newRepo()
			if err := r2.Load(ctx); err != nil {
				c.Fail("c03.maintenance", "load-error", "Load failed: %v", err)
				break
			}
			repo = r2
			c.Event("save+load")
			c.Probe("save+load")
		}
		check()
	}
	c.Nontrivial()
}

// runC03Peer: the verification handshake of a node against every kind of reply.
func runC03Peer(c *core.Ctx) {
	t := c.T
	verifyOnly := t.Chance(1, 2)
	withTx := t.Chance(1, 2)
	w := nw.New(c, nw.Options{TxManager: withTx, ProductionRepo: true})
	p := w.AddNode(verifyOnly)
	f556, _, _ := fixtures.Load()
	real := f556.Headers
	bsvIdx := splitHeight - f556.Start
	kinds := []string{"bsv-first", "bsv-first+real-followers", "bch-first", "random-first-bsv-second", "after-genesis", "zero-headers", "nonzero-tx-count", "silence", "truncated"}
	kind := kinds[t.Draw(len(kinds))]
	valid := false
	p.VerifyReply = func() []byte {
		switch kind {
		case "bsv-first":
			valid = true
			return nw.Frame(wire.CmdHeaders, nw.HeadersPayload([]*wire.BlockHeader{real[bsvIdx]}))
		case "bsv-first+real-followers":
			valid = true
			n := 1 + t.Draw(len(real)-bsvIdx-1)
			if n > 1200 {
				n = 1200
			}
			return nw.Frame(wire.CmdHeaders, nw.HeadersPayload(real[bsvIdx:bsvIdx+n]))
		case "bch-first":
			return nw.Frame(wire.CmdHeaders, nw.HeadersPayload([]*wire.BlockHeader{bchSplitHeader(), real[bsvIdx]}))
		case "random-first-bsv-second":
			h := &wire.BlockHeader{Version: 1, Timestamp: 1600000000, Bits: 0x1d00ffff, Nonce: 77}
			return nw.Frame(wire.CmdHeaders, nw.HeadersPayload([]*wire.BlockHeader{h, real[bsvIdx]}))
		case "after-genesis":
			g, _ := w.Repo.Header(w.Ctx, 0)
			h := &wire.BlockHeader{Version: 1, PrevBlock: *g.BlockHash(), Timestamp: g.Timestamp + 600, Bits: 0x1d00ffff, Nonce: 78}
			return nw.Frame(wire.CmdHeaders, nw.HeadersPayload([]*wire.BlockHeader{h}))
		case "zero-headers":
			return nw.Frame(wire.CmdHeaders, nw.HeadersPayload(nil))
		case "nonzero-tx-count":
			pl := nw.HeadersPayload([]*wire.BlockHeader{real[bsvIdx]})
			pl[len(pl)-1] = 2
			return nw.Frame(wire.CmdHeaders, pl)
		case "truncated":
			b := nw.Frame(wire.CmdHeaders, nw.HeadersPayload([]*wire.BlockHeader{real[bsvIdx]}))
			return b[:24+1+t.Draw(60)]
		}
		return nil
	}
	w.NoDelay = true
	w.Pump()
	w.NoDelay = false
	c.Event("config verifyOnly=%v txManager=%v reply=%s", verifyOnly, withTx, kind)
	c.Probe("verify-reply:" + kind)
	if kind == "truncated" {
		p.Conn.CloseRemote()
	}
	w.Advance(time.Duration(1+t.Draw(30)) * time.Second)
	c.Nontrivial()
	if p.Node.Verified() != valid {
		c.Fail("c03.verified-iff-first-header-is-bsv", fmt.Sprintf("%s verified=%v", kind, p.Node.Verified()), "Verified()=%v after the verification reply %q", p.Node.Verified(), kind)
	}
	if !valid {
		if p.Node.IsReady() {
			c.Fail("c03.verified-iff-first-header-is-bsv", kind+" ready", "IsReady() is true after the verification reply %q", kind)
		}
		if kind != "silence" && !p.Conn.LocallyClosed() && !p.Returned {
			c.Fail("c03.unverified-peer-disconnected", kind, "the peer is still connected after the verification reply %q", kind)
		}
		if w.Rec.Count("headers.ProcessHeader") != 0 {
			c.Fail("c03.unverified-peer-disconnected", kind+" processed", "headers of an unverified peer reached the repository")
		}
	} else if !verifyOnly {
		if !p.Node.IsReady() {
			c.Fail("c03.verified-iff-first-header-is-bsv", kind+" not-ready", "a full node is not ready after a valid verification reply")
		}
	}
	w.Shutdown()
}

func init() {
	core.Register(&core.Property{
		ID: "C03", Engine: "G", Level: "exploration", Bubble: true,
		Rule: "each run is one of three worlds; (c) simulated-split world: the headers world of C01/C08 (forks, reorganisations, Clean with small prune depths, Save, restart, adversarial submissions) with chain splits configured at tape-chosen low heights through the verif hook SetSplitsForSimulation: the first header of the other chain must be refused as wrong chain on every branch and after every consolidation, reload and reorganisation, every other verdict and every lookup must equal the reference. (a) repository world (sequential): a real headers.Repository on the mainnet configuration with split protection ON is started 20-140 blocks below the BSV/BCH split from the real fixture chain (MockLatest) and receives a tape-chosen interleaving of: the next real header (including the real BSV split header at 556767), synthetic forks started 1-8 blocks below the split and grown across it, impostors at 556767 on the real chain, the real BCH split header and the BSV split header at any time (parent known or not); after every step no header other than the BSV split header may be known at 556767 on any branch, BCH must be answered wrong-chain, BSV accepted once its parent is known. (b) peer world (synctest bubble): a real full or verify-only BitcoinNode performs the handshake and receives one of 9 verification replies (BSV first, BSV first + up to 1200 real followers, BCH first, random first with BSV second, header after genesis, zero headers, non-zero tx count, silence, truncated then close); Verified()/IsReady() must hold iff the first header is the BSV split header, otherwise the connection is closed and nothing reaches the repository; non-trivial = every run; distinct = distinct hash of the canonical event log",
		Real: append([]string{"headers.Repository with production split configuration (real code)"}, nodeReal...), Stub: nodeStub,
		Assumptions: []string{"the repository world starts from the test helper MockLatest (the fixture begins at height 556000); a repository started that way has no genesis-rooted branch and cannot consolidate, so Clean/Save/Load are not part of this world (they are covered on genesis-rooted chains by C10-C12)", "difficulty checks are off in the repository world so that forks can be synthesised; split protection stays on",
			"the BTC split header (height 478559) is not available offline and cannot be forged; the BTC entry of the split table is exercised only through the code path it shares with the BCH entry"},
		FaultKinds: []string{"fragmentation", "delivery-delay"},
		ProbeNames: []string{"simulated-split-world", "split-configured", "refusal:wrong-chain", "bch-offered", "bsv-accepted", "fork-below-split", "impostor-at-split-height:impostor", "impostor-at-split-height:fork-grow",
			"verify-reply:bsv-first", "verify-reply:bsv-first+real-followers", "verify-reply:bch-first", "verify-reply:random-first-bsv-second", "verify-reply:after-genesis", "verify-reply:zero-headers", "verify-reply:nonzero-tx-count", "verify-reply:silence", "verify-reply:truncated"},
		Run:          runC03,
		QuickSeconds: 20, ThoroughSeconds: 600, MinRuns: 300, BatchSize: 25, RunTimeoutSeconds: 240,
	})
}
