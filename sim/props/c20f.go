package props

import (
	"context"
	"fmt"
	"sort"
	"strings"
	"time"

	"github.com/anishathalye/porcupine"
	bitcoin_reader "github.com/tokenized/bitcoin_reader"
	"github.com/tokenized/logger"

	"verif/sim/core"
	"verif/sim/simstore"
)

// Engine F world for C20: concurrent callers of the peer address book. Every statement of peers.go is a
// scheduling point of the tape's scheduler (instrumented build); the recorded history of calls is
// checked for linearizability against a sequential reference (porcupine).

type c20In struct {
	Op       string // add, score, time, get, count, save, load, clear
	Addr     string
	Delta    int32
	Min, Max int32
	Now      uint32
}

type c20Peer struct {
	score int32
	last  uint32
}

// c20State is the reference: the book in memory and the saved copy (never mutated in place: Step works
// on a copy; states are compared by their canonical rendering).
type c20State struct {
	mem    map[string]c20Peer
	stored map[string]c20Peer // nil: nothing stored
}

func (s c20State) encode() string {
	enc := func(m map[string]c20Peer) string {
		if m == nil {
			return "-"
		}
		keys := make([]string, 0, len(m))
		for k := range m {
			keys = append(keys, k)
		}
		sort.Strings(keys)
		var sb strings.Builder
		for _, k := range keys {
			fmt.Fprintf(&sb, "%q:%d:%d;", k, m[k].score, m[k].last)
		}
		return sb.String()
	}
	return enc(s.mem) + "|" + enc(s.stored)
}

func (s c20State) clone() c20State {
	n := c20State{mem: map[string]c20Peer{}}
	for k, v := range s.mem {
		n.mem[k] = v
	}
	if s.stored != nil {
		n.stored = map[string]c20Peer{}
		for k, v := range s.stored {
			n.stored[k] = v
		}
	}
	return n
}

func c20Render(m map[string]c20Peer, min, max int32) string {
	var out []string
	for k, p := range m {
		if p.score >= min && (max == -1 || p.score <= max) {
			out = append(out, fmt.Sprintf("%q:%d:%d", k, p.score, p.last))
		}
	}
	sort.Strings(out)
	return strings.Join(out, ",")
}

var c20Model = porcupine.Model{
	Init:  func() interface{} { return c20State{mem: map[string]c20Peer{}} },
	Equal: func(a, b interface{}) bool { return a.(c20State).encode() == b.(c20State).encode() },
	Step: func(state, input, output interface{}) (bool, interface{}) {
		s := state.(c20State).clone()
		in := input.(c20In)
		out := output.(string)
		switch in.Op {
		case "add":
			_, exists := s.mem[in.Addr]
			if !exists {
				s.mem[in.Addr] = c20Peer{}
			}
			return out == fmt.Sprint(!exists), s
		case "score":
			p, exists := s.mem[in.Addr]
			if exists {
				p.score += in.Delta
				p.last = in.Now
				s.mem[in.Addr] = p
			}
			return out == fmt.Sprint(exists), s
		case "time":
			p, exists := s.mem[in.Addr]
			if exists {
				p.last = in.Now
				s.mem[in.Addr] = p
			}
			return out == fmt.Sprint(exists), s
		case "get":
			return out == c20Render(s.mem, in.Min, in.Max), state
		case "count":
			return out == fmt.Sprint(len(s.mem)), state
		case "save":
			s.stored = map[string]c20Peer{}
			for k, v := range s.mem {
				s.stored[k] = v
			}
			return out == "ok", s
		case "load":
			s.mem = map[string]c20Peer{}
			for k, v := range s.stored {
				s.mem[k] = v
			}
			return out == "ok", s
		case "clear":
			s.mem = map[string]c20Peer{}
			s.stored = nil
			return true, s // removing a file that was never saved reports an error; the property says nothing about it
		}
		return false, state
	},
	DescribeOperation: func(input, output interface{}) string {
		in := input.(c20In)
		return fmt.Sprintf("%s(%q,%d,%d..%d)@%d -> %s", in.Op, in.Addr, in.Delta, in.Min, in.Max, in.Now, output)
	},
}

func runC20F(c *core.Ctx) {
	t := c.T
	ctx := logger.ContextWithNoLogger(context.Background())
	store := simstore.New()
	repo := bitcoin_reader.NewPeerRepository(store, "") // before the scheduler is installed: the driver never parks
	fd := core.NewFDriver(t)
	fd.HoldFor = 0 // a stalled caller resumes when nothing else can run: the clock stands still during a phase, so every call has one time
	fd.S.Install()
	defer fd.S.Uninstall()
	defer fd.Finish(c)
	defer func() {
		c.SetInterleaving(fd.S.Hash(), fd.S.Steps())
		c.FaultN("schedule:goroutine-stalled", fd.Holds)
	}()
	clients := 2 + t.Draw(3)
	phases := 1 + t.Draw(4)
	pool := []string{"a", "", "10.0.0.1:8333", "peér:1", "A"}
	pool = pool[:2+t.Draw(len(pool)-1)]
	c.Event("config clients=%d phases=%d addresses=%d", clients, phases, len(pool))
	fc := &core.FClients{D: fd}
	errStr := func(err error) string {
		if err == nil {
			return "ok"
		}
		return "err:" + err.Error()
	}
	mk := func() core.FCall {
		now := uint32(time.Now().Unix())
		addr := pool[t.Draw(len(pool))]
		switch t.Weighted([]int{5, 5, 2, 4, 1, 2, 2, 1}) {
		case 0:
			return core.FCall{In: c20In{Op: "add", Addr: addr}, Do: func() interface{} {
				ok, err := repo.Add(ctx, addr)
				if err != nil {
					return "err:" + err.Error()
				}
				return fmt.Sprint(ok)
			}}
		case 1:
			delta := []int32{1, -1, 5, -7, 100}[t.Draw(5)]
			return core.FCall{In: c20In{Op: "score", Addr: addr, Delta: delta, Now: now}, Do: func() interface{} {
				return fmt.Sprint(repo.UpdateScore(ctx, addr, delta))
			}}
		case 2:
			return core.FCall{In: c20In{Op: "time", Addr: addr, Now: now}, Do: func() interface{} {
				return fmt.Sprint(repo.UpdateTime(ctx, addr))
			}}
		case 3:
			min := []int32{-1000, 0, 1, -5}[t.Draw(4)]
			max := []int32{-1, 0, 5, 100}[t.Draw(4)]
			return core.FCall{In: c20In{Op: "get", Min: min, Max: max}, Do: func() interface{} {
				l, err := repo.Get(ctx, min, max)
				if err != nil {
					return "err:" + err.Error()
				}
				var out []string
				for _, p := range l {
					out = append(out, fmt.Sprintf("%q:%d:%d", p.Address, p.Score, p.LastTime))
				}
				sort.Strings(out)
				return strings.Join(out, ",")
			}}
		case 4:
			return core.FCall{In: c20In{Op: "count"}, Do: func() interface{} { return fmt.Sprint(repo.Count()) }}
		case 5:
			return core.FCall{In: c20In{Op: "save"}, Do: func() interface{} { return errStr(repo.Save(ctx)) }}
		case 6:
			return core.FCall{In: c20In{Op: "load"}, Do: func() interface{} { return errStr(repo.Load(ctx)) }}
		default:
			return core.FCall{In: c20In{Op: "clear"}, Do: func() interface{} { return errStr(repo.Clear(ctx)) }}
		}
	}
	total := 0
	for ph := 0; ph < phases && total < 36; ph++ {
		calls := make([][]core.FCall, clients)
		for ci := range calls {
			for k, n := 0, 1+t.Draw(3); k < n; k++ {
				calls[ci] = append(calls[ci], mk())
				total++
			}
		}
		c.Event("phase %d: %d clients, %d calls so far", ph, clients, total)
		if !fc.Phase(calls) {
			c.Fail("c20.calls-return", "caller-blocked", "a caller of the address book never returned although every other goroutine had finished")
			return
		}
		if t.Chance(1, 2) {
			d := []time.Duration{time.Second, 3 * time.Second}[t.Draw(2)]
			fd.Advance(d)
			c.AddSimTime(int64(d))
		}
	}
	// one last sequential reading, after everything: the final state must fit the linearization too
	fc.Sequential(clients, core.FCall{In: c20In{Op: "get", Min: -1 << 30, Max: -1}, Do: func() interface{} {
		l, _ := repo.Get(ctx, -1<<30, -1)
		var out []string
		for _, p := range l {
			out = append(out, fmt.Sprintf("%q:%d:%d", p.Address, p.Score, p.LastTime))
		}
		sort.Strings(out)
		return strings.Join(out, ",")
	}})
	c.Nontrivial()
	switch fc.CheckLinearizable(c20Model, 0) {
	case porcupine.Illegal:
		var lines []string
		for _, op := range fc.History {
			lines = append(lines, fmt.Sprintf("client%d [%d,%d] %s", op.ClientId, op.Call, op.Return, c20Model.DescribeOperation(op.Input, op.Output)))
		}
		c.Fail("c20.linearizable", "history-not-linearizable", "no order of the %d recorded calls that respects their real-time order explains the results by the sequential address book:\n%s", len(fc.History), strings.Join(lines, "\n"))
	case porcupine.Unknown:
		c.Probe("linearizability-check-inconclusive")
	default:
		c.Probe("history-linearizable")
	}
}
