//go:build simf

package props

import (
	"github.com/tokenized/bitcoin_reader/simrt"

	"verif/sim/core"
)

// This file only builds against the instrumented scratch copy of the repository (run.sh, Engine F).

type fSched struct{ s *simrt.Sched }

func (f *fSched) Install() {
	f.s.SetDriver() // the goroutine that installs the scheduler is the driver
	simrt.Install(f.s)
}
func (f *fSched) SetSelectSeed(seed uint64)   { f.s.SelectSeed = seed }
func (f *fSched) SetDriverWait(w func() bool) { f.s.DriverWait = w }
func (f *fSched) SetNotify(n chan struct{})   { f.s.SetNotify(n) }
func (f *fSched) Uninstall()                  { simrt.Install(nil) }
func (f *fSched) Waiters() []core.FWaiter {
	ws := f.s.Waiters()
	out := make([]core.FWaiter, len(ws))
	for i, w := range ws {
		out[i] = core.FWaiter{Site: w.Site, Lock: w.Kind == simrt.KindLock, Sync: w.Kind == simrt.KindYieldSync, Runnable: f.s.Runnable(w), Seq: w.Seq, G: w.G, Ref: w}
	}
	return out
}
func (f *fSched) Resume(w core.FWaiter) { f.s.Resume(w.Ref.(*simrt.Waiter)) }
func (f *fSched) DriverCall(fn func())  { f.s.DriverCall(fn) }
func (f *fSched) Off()                  { f.s.Off() }
func (f *fSched) Steps() uint64         { return f.s.Steps }
func (f *fSched) Hash() uint64          { return f.s.Hash }

func init() {
	core.NewFScheduler = func() core.FScheduler { return &fSched{s: simrt.New()} }
}
