package props

import (
	"fmt"
	"testing/synctest"
	"time"

	bitcoin_reader "github.com/tokenized/bitcoin_reader"
	"github.com/tokenized/pkg/bitcoin"
	"github.com/tokenized/pkg/wire"

	"verif/sim/core"
	bw "verif/sim/worlds/blockworld"
	nw "verif/sim/worlds/nodeworld"
)

// runC16Stack is the full-stack world of C16: a real BlockManager asks a real NodeManager for blocks,
// which picks real BitcoinNodes connected to scripted peers over simulated connections; the peers
// answer getdata with block messages that the driver delivers in tape-chosen chunks, so the node side
// of a download (RequestBlock, the streaming block handler, CancelBlockRequest reporting "started" or
// "not started" and closing the reader, blockOnStop when the connection dies) is the real code too.
// Under Engine F all of it (nodes, handlers, manager, downloaders) runs under the statement scheduler.
func runC16Stack(c *core.Ctx) {
	t := c.T
	fd, endF := nw.StartF(c)
	defer endF()
	w := nw.New(c, nw.Options{})
	w.FD = fd
	if fd != nil {
		w.Early = 15
	}
	ctx := w.Ctx
	concurrent := 1 + t.Draw(3)
	delay := []time.Duration{time.Second, 5 * time.Second}[t.Draw(2)]
	nBlocks := 1 + t.Draw(2)
	nPeers := 1 + t.Draw(3)
	steps := 6 + t.Draw(40)
	c.Event("config (full stack) concurrent=%d delay=%v blocks=%d peers=%d steps=%d", concurrent, delay, nBlocks, nPeers, steps)

	// a short chain of blocks with real merkle roots on top of genesis
	genesis, err := w.Repo.Header(ctx, 0)
	if err != nil {
		panic(err)
	}
	prev := *genesis.BlockHash()
	ts := genesis.Timestamp
	var blocks []*bw.Block
	var chain []*wire.BlockHeader
	for i := 0; i < nBlocks; i++ {
		b := bw.MakeBlock(uint32(500+i), 1+t.Draw(5), nw.MakeTx)
		ts += 600
		b.Header.PrevBlock = prev
		b.Header.Timestamp = ts
		b.Hash = *b.Header.BlockHash()
		prev = b.Hash
		blocks = append(blocks, b)
		chain = append(chain, b.Header)
		if err := w.Repo.ProcessHeader(ctx, b.Header); err != nil {
			panic(err)
		}
	}
	wrong := bw.MakeBlock(9998, 2, nw.MakeTx)
	byHash := map[bitcoin.Hash32]*bw.Block{}
	for _, b := range blocks {
		byHash[b.Hash] = b
	}

	m := bitcoin_reader.NewNodeManager("/sim/", w.Cfg, w.Repo, w.Book)
	rec := bw.NewRecorder()
	bm := bitcoin_reader.NewBlockManager(rec, m, concurrent, delay)
	interrupt := make(chan interface{})
	bmDone := make(chan error, 1)
	go func() { bmDone <- bm.Run(ctx, interrupt) }()

	faulty := true
	replies := 0
	attach := func(i int) *nw.Peer {
		p := w.AttachManagedNode(m, i)
		// after verification the peer announces its chain, so the node knows which blocks it has
		verify := p.VerifyReply
		p.VerifyReply = func() []byte {
			return append(verify(), nw.Frame(wire.CmdHeaders, nw.HeadersPayload(chain))...)
		}
		p.OnGetData = func(msg nw.Msg) []byte {
			typs, hashes := nw.GetDataItems(msg.Payload)
			var out []byte
			for k, h := range hashes {
				if typs[k] != uint32(wire.InvTypeBlock) {
					continue
				}
				b := byHash[h]
				if b == nil {
					continue
				}
				replies++
				kind := 0
				if faulty {
					kind = t.Weighted([]int{6, 2, 2, 2})
				}
				full := nw.Frame(wire.CmdBlock, nw.BlockPayload(b.Header, uint64(len(b.Txs)), b.Txs))
				switch kind {
				case 0:
					c.Event("peer%d answers getdata with block %s", p.ID, h.String()[:8])
					out = append(out, full...)
				case 1:
					c.Event("peer%d answers getdata with a different block", p.ID)
					c.Fault("source:wrong-block")
					out = append(out, nw.Frame(wire.CmdBlock, nw.BlockPayload(wrong.Header, uint64(len(wrong.Txs)), wrong.Txs))...)
				case 2:
					cut := 24 + 80 + 1 + t.Draw(len(full)-24-80)
					c.Event("peer%d answers getdata with the first %d of %d bytes and stalls", p.ID, cut, len(full))
					c.Fault("source:stream-stalls-mid-block")
					out = append(out, full[:cut]...)
					// silence means silence: a pong sent now would be read as the continuation of the
					// block (hostile transaction bytes are C15's subject, and the dependency's handling
					// of declared lengths is known finding KF20/KF21)
					p.AutoPong = false
				default:
					c.Event("peer%d ignores getdata", p.ID)
					c.Fault("source:request-ignored")
				}
			}
			return out
		}
		return p
	}
	for i := 0; i < nPeers; i++ {
		attach(i)
	}
	w.NoDelay = true
	w.Pump()
	w.NoDelay = false

	type request struct {
		blk      *bw.Block
		complete <-chan error
		abort    chan<- interface{}
		signals  []string
		aborted  bool
		left     bool
		done     chan struct{}
	}
	var requests []*request
	interrupted := false
	addRequest := func(b *bw.Block, height int) {
		complete, abort := bm.AddRequest(ctx, b.Hash, height, rec)
		r := &request{blk: b, complete: complete, abort: abort, done: make(chan struct{})}
		requests = append(requests, r)
		c.Event("request block %s (%d txs)", b.Hash.String()[:8], len(b.Txs))
		if complete == nil {
			r.signals = append(r.signals, "refused")
			close(r.done)
			return
		}
		go func() {
			defer close(r.done)
			select {
			case err, ok := <-complete:
				if !ok {
					r.signals = append(r.signals, "completed")
				} else {
					r.signals = append(r.signals, "value:"+errShortP(err))
				}
			case <-interrupt:
				r.left = true
			}
		}()
	}
	processed := func(h bitcoin.Hash32) bool { return rec.IsProcessed(h) }
	check := func() {
		if fd != nil && len(fd.Parked()) > 0 {
			return // a goroutine between its last signal and its return is not an observation yet
		}
		for _, r := range requests {
			n := 0
			for _, sg := range r.signals {
				if sg == "completed" || sg[:6] == "value:" {
					n++
				}
				if sg == "completed" && !processed(r.blk.Hash) {
					c.Fail("c16.complete-only-after-successful-download", "completed-without-success (full stack)", "the request for block %s was signalled complete although the block was never fully processed", r.blk.Hash.String()[:8])
				}
			}
			if n > 1 {
				c.Fail("c16.exactly-one-terminal-signal", fmt.Sprintf("signals=%d (full stack)", n), "a request received %d terminal signals: %v", n, r.signals)
			}
		}
		for _, b := range blocks {
			if n := bm.DownloaderCount(b.Hash); n > concurrent {
				c.Fail("c16.concurrent-downloads-bounded", fmt.Sprintf("count=%d max=%d (full stack)", n, concurrent), "%d downloaders are registered for one block, the configured maximum is %d", n, concurrent)
			}
		}
	}
	next := 0
	gaveUp := false
	idle := 0
	pollBM := func() {
		select {
		case err := <-bmDone:
			gaveUp = true
			c.Event("block manager Run returned: %s", errShortP(err))
			bmDone <- err
		default:
		}
	}
	step := func() {
		w.Settle()
		check()
		pollBM()
		cur := (*request)(nil)
		if len(requests) > 0 {
			cur = requests[len(requests)-1]
		}
		if (cur == nil || len(cur.signals) > 0 || cur.left) && next < len(blocks) && !interrupted && !gaveUp {
			addRequest(blocks[next], next+1)
			next++
			return
		}
		acts := []int{10, 6, 0, 0, 0}
		if faulty {
			acts = []int{10, 6, 2, 1, 2}
		}
		act := t.Weighted(acts)
		if act == 0 {
			pending := false
			for _, p := range w.Peers {
				if p.Pending() > 0 {
					pending = true
				}
			}
			if !pending {
				act = 1 // nothing to deliver: time passes instead (also when the tape has run out)
			}
		}
		switch act {
		case 0: // the network delivers some of what the peers sent
			w.PumpChunks(1 + t.Draw(4))
		case 1:
			d := []time.Duration{time.Second, delay, 10 * time.Second, 2 * time.Minute}[t.Draw(4)]
			if !faulty {
				// epilogue: waits grow (a stalled download is only given up after its one hour timeout)
				idle++
				if idle > 10 {
					d = time.Minute
				}
				if idle > 30 {
					d = 5 * time.Minute
				}
			}
			c.Event("advance %v", d)
			w.Advance(d)
		case 2: // the requester aborts the current request
			if cur != nil && len(cur.signals) == 0 && !cur.aborted && cur.abort != nil {
				cur.aborted = true
				c.Event("requester aborts")
				c.Fault("request:abort")
				close(cur.abort)
			}
		case 3: // shutdown
			if !interrupted {
				interrupted = true
				c.Event("shutdown")
				c.Fault("shutdown")
				close(interrupt)
			}
		default: // a peer connection dies
			var live []*nw.Peer
			for _, p := range w.Peers {
				if !p.Returned && !p.Conn.LocallyClosed() {
					live = append(live, p)
				}
			}
			if len(live) > 0 {
				p := live[t.Draw(len(live))]
				c.Event("peer%d closes its connection", p.ID)
				c.Fault("source:connection-closed")
				p.Conn.CloseRemote()
			}
		}
	}
	for i := 0; i < steps && !gaveUp; i++ {
		step()
	}
	// fault free epilogue: a fresh honest peer joins, nothing is cut, ignored, aborted or closed any more
	faulty = false
	if fd != nil {
		fd.ReleaseAll()
		w.Early = 0
	}
	if !interrupted && !gaveUp {
		attach(len(w.Peers))
		w.NoDelay = true
		w.Pump()
		w.NoDelay = false
		budget := time.Now().Add(time.Duration(150*(nBlocks+1)) * time.Minute)
		for i := 0; i < 3000 && time.Now().Before(budget) && !gaveUp; i++ {
			step()
			pending := next < len(blocks)
			for _, r := range requests {
				if len(r.signals) == 0 && !r.left {
					pending = true
				}
			}
			if !pending {
				break
			}
		}
		if !gaveUp {
			for _, r := range requests {
				if len(r.signals) == 0 && !r.left {
					c.Fail("c16.request-terminates", "no-terminal-signal (full stack)", "with an honest peer connected and no further faults the request for block %s had no terminal signal after %d simulated minutes\n%s", r.blk.Hash.String()[:8], 150*(nBlocks+1), core.BlockedGoroutines())
				}
			}
		}
	}
	c.Nontrivial()
	if replies > 0 {
		c.Probe("full-stack-block-served")
	}
	for _, r := range requests {
		for _, sg := range r.signals {
			c.Probe("full-stack-terminal:" + sg)
		}
	}
	// shutdown: everything must return
	if !interrupted {
		close(interrupt)
	}
	m.Stop(ctx)
	w.Shutdown()
	for i := 0; i < 40; i++ {
		w.Settle()
		select {
		case err := <-bmDone:
			bmDone <- err
			i = 1000
		default:
			w.Sleep(time.Minute)
		}
	}
	select {
	case err := <-bmDone:
		bmDone <- err
	default:
		c.Fail("c16.manager-run-returns", "run-blocked-after-shutdown (full stack)", "BlockManager.Run had not returned 40 simulated minutes after shutdown\n%s", core.BlockedGoroutines())
	}
	check()
	done := make(chan struct{})
	go func() { m.Wait(ctx); close(done) }()
	if fd != nil {
		fd.Settle(0, 1<<30)
	}
	synctest.Wait()
	select {
	case <-done:
	default:
		c.Fail("c16.manager-run-returns", "node-manager-wait-blocked (full stack)", "NodeManager.Wait had not returned after Stop\n%s", core.BlockedGoroutines())
	}
}
