package props

import (
	"context"
	"fmt"
	"strings"
	"time"

	"github.com/tokenized/bitcoin_reader/headers"
	"github.com/tokenized/pkg/bitcoin"
	"github.com/tokenized/pkg/wire"

	"verif/sim/core"
	"verif/sim/model"
	nw "verif/sim/worlds/nodeworld"
)

// verifiedNode brings a node through handshake and verification with default peer behaviour.
func verifiedNode(c *core.Ctx, w *nw.World, verifyOnly bool) *nw.Peer {
	p := w.AddNode(verifyOnly)
	w.NoDelay = true
	w.Pump()
	w.NoDelay = false
	return p
}

type c14state struct {
	w          *nw.World
	p          *nw.Peer
	k          int
	tipHeader  *wire.BlockHeader
	requested  *bitcoin.Hash32
	reqHeader  *wire.BlockHeader
	reqTxs     []*wire.MsgTx
	protoconfs int
	blockDone  chan struct{}
}

// conformantMessage returns one well-formed message; mayDisconnect is true for the few messages after
// which a conformant implementation may legitimately close the connection.
func (s *c14state) conformantMessage(c *core.Ctx, maxPayload int) (b []byte, name string, mayDisconnect bool) {
	t := c.T
	s.k++
	k := s.k
	switch t.Draw(22) {
	case 0:
		return nw.Frame(wire.CmdHeaders, nw.HeadersPayload(nil)), "headers(empty)", false
	case 1: // headers extending our tip
		n := 1 + t.Draw(5)
		if t.Chance(1, 10) {
			n = 2000
		}
		var hs []*wire.BlockHeader
		prev := s.tipHeader
		for i := 0; i < n; i++ {
			h := &wire.BlockHeader{Version: 1, PrevBlock: *prev.BlockHash(), Timestamp: prev.Timestamp + 600, Bits: 0x1d00ffff, Nonce: uint32(k*4096 + i)}
			hs = append(hs, h)
			prev = h
		}
		s.tipHeader = prev
		return nw.Frame(wire.CmdHeaders, nw.HeadersPayload(hs)), fmt.Sprintf("headers(%d connecting)", n), false
	case 2: // headers we already have
		if s.tipHeader.PrevBlock == (bitcoin.Hash32{}) {
			return nw.Frame(wire.CmdHeaders, nw.HeadersPayload(nil)), "headers(empty)", false
		}
		return nw.Frame(wire.CmdHeaders, nw.HeadersPayload([]*wire.BlockHeader{s.tipHeader})), "headers(duplicate)", false
	case 3:
		var hs []bitcoin.Hash32
		n := t.Draw(6)
		if t.Chance(1, 10) {
			n = 2000
		}
		for i := 0; i < n; i++ {
			hs = append(hs, model.DoubleSHA([]byte(fmt.Sprintf("inv-%d-%d", k, i))))
		}
		typ := uint32(1)
		if t.Chance(1, 4) {
			typ = 2 // block inventory
		}
		return nw.Frame(wire.CmdInv, nw.InvPayload(typ, hs)), fmt.Sprintf("inv(%d)", n), false
	case 4:
		tx := nw.MakeTx(uint32(10000+k), t.Draw(1+maxPayload/4))
		return nw.Frame(wire.CmdTx, nw.TxBytes(tx)), "tx", false
	case 5:
		tx := nw.MakeTx(uint32(20000+k), t.Draw(1+maxPayload/4))
		b := nw.TxBytes(tx)
		return nw.FrameExt(wire.CmdTx, b, uint64(len(b))), "extmsg(tx)", false
	case 6:
		n := t.Draw(30)
		if t.Chance(1, 10) {
			n = 1000
		}
		return nw.Frame(wire.CmdAddr, nw.AddrPayload(n, uint32(k))), fmt.Sprintf("addr(%d)", n), false
	case 7:
		return nw.Frame(wire.CmdGetAddr, nil), "getaddr", false
	case 8:
		return nw.Frame(wire.CmdPing, nw.PingPayload(uint64(0xabc00000+k))), "ping", false
	case 9: // unrequested block, classic framing
		tx := nw.MakeTx(uint32(30000+k), t.Draw(1+maxPayload/8))
		h := &wire.BlockHeader{Version: 1, Timestamp: 1500000000, Bits: 0x1d00ffff, Nonce: uint32(k), MerkleRoot: *tx.TxHash()}
		return nw.Frame(wire.CmdBlock, nw.BlockPayload(h, 1, []*wire.MsgTx{tx})), "block(unrequested)", false
	case 10: // unrequested block, extended framing
		tx := nw.MakeTx(uint32(40000+k), t.Draw(1+maxPayload/8))
		h := &wire.BlockHeader{Version: 1, Timestamp: 1500000000, Bits: 0x1d00ffff, Nonce: uint32(k), MerkleRoot: *tx.TxHash()}
		b := nw.BlockPayload(h, 1, []*wire.MsgTx{tx})
		return nw.FrameExt(wire.CmdBlock, b, uint64(len(b))), "extmsg(block unrequested)", false
	case 11: // the requested block, if any
		if s.requested == nil {
			return nw.Frame("mempool", nil), "unhandled(mempool)", false
		}
		b := nw.BlockPayload(s.reqHeader, uint64(len(s.reqTxs)), s.reqTxs)
		s.requested = nil
		if t.Chance(1, 2) {
			return nw.FrameExt(wire.CmdBlock, b, uint64(len(b))), "extmsg(block requested)", false
		}
		return nw.Frame(wire.CmdBlock, b), "block(requested)", false
	case 12:
		b := make([]byte, t.Draw(1+maxPayload))
		return nw.FrameExt("whatever", b, uint64(len(b))), "extmsg(unknown)", false
	case 13:
		var pl []byte
		pl = append(pl, 2, 'T', 'X', 0x10)
		pl = append(pl, 6, 'r', 'e', 'a', 's', 'o', 'n')
		pl = append(pl, make([]byte, 32)...)
		return nw.Frame(wire.CmdReject, pl), "reject", false
	case 14:
		return nw.Frame("sendheaders", nil), "sendheaders", false
	case 15:
		s.protoconfs++
		return nw.Frame(wire.CmdProtoconf, nw.ProtoconfPayload()), "protoconf", s.protoconfs > 1
	case 16:
		return nw.Frame(wire.CmdPong, nw.PingPayload(0xdeadbeef)), "pong(foreign nonce)", true
	case 17:
		h := &wire.BlockHeader{Version: 1, Timestamp: 1500000000, Bits: 0x1d00ffff, Nonce: uint32(k)}
		h.PrevBlock[5] = 7
		return nw.Frame(wire.CmdHeaders, nw.HeadersPayload([]*wire.BlockHeader{h})), "headers(not connecting)", true
	case 18:
		return nw.Frame(wire.CmdAddr, nw.AddrPayload(1001+t.Draw(50), uint32(k))), "addr(>1000)", true
	default:
		cmds := []string{"feefilter", "mempool", "notfound", "sendcmpct", "getdata", "getheaders", "getblocks", "merkleblock", "alert", "madeup", "x", "authch", "createstrm"}
		n := t.Draw(1 + maxPayload)
		if t.Chance(1, 3) {
			n = 0
		}
		return nw.Frame(cmds[t.Draw(len(cmds))], make([]byte, n)), "unhandled", false
	}
}

func runC14(c *core.Ctx) {
	t := c.T
	withTx := t.Chance(1, 2)
	fd, endF := nw.StartF(c) // Engine F phase: the node's goroutines under the statement scheduler
	defer endF()
	w := nw.New(c, nw.Options{TxManager: withTx})
	w.FD = fd
	if fd != nil {
		w.Early = 15
	}
	p := verifiedNode(c, w, false)
	if !p.Node.Verified() || !p.Node.IsReady() {
		c.Fail("c14.setup", "not-verified", "the node did not verify against the default scripted peer")
		w.Shutdown()
		return
	}
	maxPayload := []int{64, 2000, 70000}[t.Draw(3)]
	if c.Thorough() && t.Chance(1, 20) {
		maxPayload = 4 << 20
	}
	tip, _ := w.Repo.Header(w.Ctx, w.Repo.Height())
	s := &c14state{w: w, p: p, tipHeader: tip}
	requestBlock := t.Chance(1, 2)
	c.Event("config txManager=%v blockRequested=%v maxPayload=%d", withTx, requestBlock, maxPayload)
	if requestBlock {
		var txs []*wire.MsgTx
		var ids []model.Hash
		for i := 0; i < 1+t.Draw(5); i++ {
			tx := nw.MakeTx(uint32(900+i), t.Draw(100))
			txs = append(txs, tx)
			ids = append(ids, *tx.TxHash())
		}
		h := &wire.BlockHeader{Version: 1, Timestamp: 1500000000, Bits: 0x1d00ffff, Nonce: 99, MerkleRoot: model.MerkleRoot(ids)}
		hash := *h.BlockHash()
		s.requested, s.reqHeader, s.reqTxs = &hash, h, txs
		err := p.Node.RequestBlock(w.Ctx, hash, func(ctx context.Context, header *wire.BlockHeader, txCount uint64, ch <-chan *wire.MsgTx) error {
			for range ch {
			}
			return nil
		}, func(context.Context) {})
		if err != nil {
			c.Fail("c14.setup", "request-block", "RequestBlock failed: %v", err)
		}
		c.Probe("state:block-requested")
	}
	n := 1 + t.Draw(12)
	may := false
	for i := 0; i < n; i++ {
		b, name, md := s.conformantMessage(c, maxPayload)
		c.Event("peer sends %s (%d bytes)", name, len(b))
		c.Probe("sent:" + strings.SplitN(name, "(", 2)[0])
		if md {
			may = true
			c.Probe("may-disconnect-message")
		}
		p.Send(b)
		if t.Chance(1, 2) {
			w.Pump()
		}
	}
	nonce := uint64(0x5151000000000000) | uint64(t.Draw(1<<30))
	p.Send(nw.Frame(wire.CmdPing, nw.PingPayload(nonce)))
	w.Pump()
	for i := 0; i < 60 && !p.PongFor(nonce) && !p.Returned; i++ {
		w.Advance(10 * time.Second)
	}
	c.Nontrivial()
	garbage := p.RunErr != nil && (strings.Contains(p.RunErr.Error(), "Wrong Network") || strings.Contains(p.RunErr.Error(), "Invalid command"))
	closed := p.Returned || p.Conn.LocallyClosed()
	switch {
	case p.PongFor(nonce):
		c.Probe("pong-received")
		if !closed && !p.Node.IsReady() {
			c.Fail("c14.still-ready", "not-ready", "the node answered the ping but is no longer ready")
		}
	case garbage:
		c.Fail("c14.framing-in-sync", "payload-parsed-as-header", "after a sequence of well-formed messages the node parsed payload bytes as a message header: %v", p.RunErr)
	case !may:
		cls := "no-pong-still-connected"
		if closed {
			cls = "disconnected"
		}
		c.Fail("c14.ping-answered", cls, "after a sequence of conformant messages the ping was not answered within 10 simulated minutes (closed=%v run error: %v)", closed, p.RunErr)
	case !closed:
		c.Fail("c14.ping-answered", "no-pong-still-connected-after-may-disconnect", "after a may-disconnect message the node neither answered the ping nor closed the connection")
	default:
		c.Probe("orderly-close-after-may-disconnect")
	}
	_ = headers.ErrUnknownHeader
	w.Shutdown()
}

func init() {
	core.Register(&core.Property{
		ID: "C14", Engine: "G", Level: "exploration", Bubble: true,
		Rule: "each run: a verified real BitcoinNode (transaction manager present/absent, block requested/not) receives 1-12 tape-generated well-formed messages over the whole command set (handled and unhandled commands, classic and extended framing for tx/block/unknown, empty and full headers/inv/addr, requested and unrequested blocks, payloads up to 64 B / 2 kB / 70 kB, thorough: 4 MB) fragmented and delayed by the tape, then a ping with a fresh nonce; must-stay-connected sequences must yield the pong within 10 simulated minutes; after a may-disconnect message (second protoconf, pong with a foreign nonce, addr > 1000, headers that do not connect) pong or orderly close, never a payload parsed as a header; non-trivial = every run; distinct = distinct hash of the canonical event log Engine F phase (second search phase, instrumented build, see DESIGN.md 2.4): the same world with the node's goroutines (read loop, per-message handler goroutines, handshake and verification, ping loop, outgoing queue) under the tape's statement-level scheduler between the delivered chunks; a stalled goroutine resumes when nothing else can run; everything runs to rest before the state is judged",
		Real: nodeReal, Stub: nodeStub,
		Assumptions:  []string{"goroutine order between two quiescent points is the Go runtime's (GOMAXPROCS=1 in workers); the oracle is order independent"},
		FaultKinds:   []string{"fragmentation", "delivery-delay"},
		ProbeNames:   []string{"state:block-requested", "pong-received", "may-disconnect-message", "orderly-close-after-may-disconnect", "sent:headers", "sent:inv", "sent:tx", "sent:extmsg", "sent:block", "sent:addr", "sent:unhandled", "sent:protoconf", "sent:reject"},
		Run:          runC14,
		QuickSeconds: 20, ThoroughSeconds: 600, MinRuns: 300, BatchSize: 50, RunTimeoutSeconds: 180, FQuickSeconds: 12, FThoroughSeconds: 300,
	})
}
