package props

import (
	"context"
	"encoding/binary"
	"encoding/hex"
	"encoding/json"
	"fmt"
	"os"
	"time"

	"github.com/tokenized/pkg/bitcoin"
	"github.com/tokenized/pkg/wire"

	"verif/sim/core"
	"verif/sim/model"
	nw "verif/sim/worlds/nodeworld"
)

// hostileBytes returns one hostile byte string.
func hostileBytes(c *core.Ctx, w *nw.World, k int, requested bool) ([]byte, string) {
	t := c.T
	tip, _ := w.Repo.Header(w.Ctx, w.Repo.Height())
	if requested && t.Chance(1, 2) {
		return hostileRequestedBlock(c, tip, k)
	}
	hdr := func(bits uint32, ts uint32) *wire.BlockHeader {
		return &wire.BlockHeader{Version: 1, PrevBlock: *tip.BlockHash(), Timestamp: ts, Bits: bits, Nonce: uint32(k)}
	}
	switch t.Draw(16) {
	case 0: // pure noise
		b := make([]byte, 1+t.Draw(400))
		t.Bytes(b)
		return b, "random-bytes"
	case 1: // right magic, noise after
		b := make([]byte, 4+t.Draw(400))
		t.Bytes(b)
		binary.LittleEndian.PutUint32(b, nw.MainNetMagic)
		return b, "magic+random"
	case 2: // valid message, corrupted checksum
		b := nw.Frame(wire.CmdPing, nw.PingPayload(1))
		b[20] ^= 0xff
		return b, "bad-checksum"
	case 3: // declared length larger than what follows
		b := nw.Frame(wire.CmdAddr, nw.AddrPayload(2, 1))
		binary.LittleEndian.PutUint32(b[16:], uint32(len(b)-24+1+t.Draw(1<<20)))
		return b, "length-too-long"
	case 4: // declared length shorter than payload: the rest is parsed as the next header
		b := nw.Frame(wire.CmdAddr, nw.AddrPayload(3, 1))
		binary.LittleEndian.PutUint32(b[16:], uint32(t.Draw(len(b)-24)))
		return b, "length-too-short"
	case 5: // count varint far beyond the payload
		cmds := []string{wire.CmdHeaders, wire.CmdInv, wire.CmdAddr}
		pl := []byte{0xff, 0xff, 0xff, 0xff, 0xff, 0xff, 0xff, 0xff, 0x7f}
		pl = append(pl, make([]byte, t.Draw(200))...)
		return nw.Frame(cmds[t.Draw(len(cmds))], pl), "count-huge"
	case 6: // extended message with an absurd declared length
		lens := []uint64{1 << 62, 1<<63 + 5, 0xffffffffffffffff, 1 << 48, 0xfffffffffffffff0}
		cmds := []string{wire.CmdTx, wire.CmdBlock, "whatever"}
		pl := make([]byte, t.Draw(300))
		t.Bytes(pl)
		return nw.FrameExt(cmds[t.Draw(len(cmds))], pl, lens[t.Draw(len(lens))]), "extmsg-length-absurd"
	case 7: // headers with every class of bits encoding
		exps := []uint32{0, 1, 2, 3, 4, 0x1c, 0x1d, 0x20, 0x21, 0x22, 0x7f, 0x80, 0xff}
		mants := []uint32{0, 1, 0x7fffff, 0x800000, 0x00ffff, 0xffffff, 0x010000, 0x000100}
		bits := exps[t.Draw(len(exps))]<<24 | mants[t.Draw(len(mants))]
		tss := []uint32{0, 1, tip.Timestamp, tip.Timestamp + 600, 0xffffffff}
		return nw.Frame(wire.CmdHeaders, nw.HeadersPayload([]*wire.BlockHeader{hdr(bits, tss[t.Draw(len(tss))])})), fmt.Sprintf("headers-bits-%08x", bits)
	case 8: // tx with a huge input count
		if includeKnown() && t.Chance(1, 2) {
			// KNOWN FINDING (dependency): an input count of 2^40 is allocated by wire.MsgTx.BtcDecode
			pl := []byte{1, 0, 0, 0, 0xff, 0, 0, 0, 0, 0, 1, 0, 0}
			pl = append(pl, make([]byte, 60)...)
			return nw.Frame(wire.CmdTx, pl), "tx-input-count-2^40"
		}
		pl := []byte{1, 0, 0, 0, 0xff, 0xff, 0xff, 0xff, 0xff, 0xff, 0xff, 0xff, 0x0f}
		pl = append(pl, make([]byte, t.Draw(100))...)
		if t.Chance(1, 2) {
			return nw.FrameExt(wire.CmdTx, pl, uint64(len(pl))), "tx-input-count-huge(ext)"
		}
		return nw.Frame(wire.CmdTx, pl), "tx-input-count-huge"
	case 9: // tx with a script length beyond the payload
		tx := nw.MakeTx(uint32(k), 10)
		b := nw.TxBytes(tx)
		// version(4) incount(1) prevout(36) scriptlen varint at offset 41
		if includeKnown() && t.Chance(1, 2) {
			// KNOWN FINDING (dependency): a script length of 2^40 is allocated by wire.readScript
			b = append(b[:41], append([]byte{0xff, 0, 0, 0, 0, 0, 1, 0, 0}, b[42:]...)...)
			return nw.Frame(wire.CmdTx, b), "tx-script-length-2^40"
		}
		b[41] = 0xfd
		b = append(b[:42], append([]byte{0xff, 0xff}, b[42:]...)...) // 65535 bytes declared
		return nw.Frame(wire.CmdTx, b), "tx-script-length-beyond-payload"
	case 10: // truncated valid message (the peer closes after it)
		b := nw.Frame(wire.CmdAddr, nw.AddrPayload(5, 2))
		return b[:1+t.Draw(len(b)-1)], "truncated"
	case 11: // block with an announced tx count far beyond its content
		tx := nw.MakeTx(uint32(k), 0)
		h := &wire.BlockHeader{Version: 1, Timestamp: 1, Bits: 0x1d00ffff, MerkleRoot: *tx.TxHash()}
		b := nw.BlockPayload(h, 1<<40, []*wire.MsgTx{tx})
		return nw.Frame(wire.CmdBlock, b), "block-tx-count-huge"
	case 12: // command bytes that are not valid UTF-8 / not NUL padded
		b := nw.Frame("ping", nw.PingPayload(2))
		for i := 4; i < 16; i++ {
			b[i] = byte(0x80 + t.Draw(0x7f))
		}
		return b, "command-garbage"
	case 13: // version message with a mangled user agent length
		pl := nw.VersionPayload(1)
		if includeKnown() && t.Chance(1, 2) {
			// KNOWN FINDING (dependency): an 8 byte length of 2^40 is allocated by wire.ReadVarString
			pl = append(pl[:80], 0xff, 0, 0, 0, 0, 0, 1, 0, 0)
			return nw.Frame(wire.CmdVersion, pl), "version-useragent-length-2^40"
		}
		if len(pl) > 81 {
			pl[80] = byte(0x10 + t.Draw(0xe0)) // up to 0xfd + 2 byte length: at most 64 KiB
		}
		return nw.Frame(wire.CmdVersion, pl), "version-mangled"
	case 14: // inv with valid count but type garbage and hashes
		var hs []bitcoin.Hash32
		for i := 0; i < 3; i++ {
			hs = append(hs, model.DoubleSHA([]byte(fmt.Sprintf("h-%d-%d", k, i))))
		}
		return nw.Frame(wire.CmdInv, nw.InvPayload(uint32(t.Draw(1<<30)), hs)), "inv-type-garbage"
	default: // a valid message with one flipped byte anywhere
		cands := [][]byte{
			nw.Frame(wire.CmdHeaders, nw.HeadersPayload([]*wire.BlockHeader{hdr(0x1d00ffff, tip.Timestamp+600)})),
			nw.Frame(wire.CmdAddr, nw.AddrPayload(4, 9)),
			nw.Frame(wire.CmdTx, nw.TxBytes(nw.MakeTx(uint32(k), 20))),
			nw.FrameExt(wire.CmdTx, nw.TxBytes(nw.MakeTx(uint32(k), 20)), uint64(len(nw.TxBytes(nw.MakeTx(uint32(k), 20))))),
			nw.Frame(wire.CmdProtoconf, nw.ProtoconfPayload()),
			nw.Frame(wire.CmdReject, []byte{2, 'T', 'X', 0x10, 1, 'r'}),
		}
		ci := t.Draw(len(cands))
		b := append([]byte(nil), cands[ci]...)
		pos := t.Draw(len(b))
		if ci == 3 && pos >= 36 && pos < 44 {
			pos = 44 // the extended length field is covered by extmsg-length-absurd with deterministic sizes
		}
		b[pos] ^= byte(1 + t.Draw(255))
		if b[pos] >= 0xfe {
			// a flipped varint prefix of 0xfe/0xff would declare a random length of up to 2^64 taken from
			// the following bytes; mid-size values (GBs) make the outcome depend on this machine's
			// memory. The deterministic huge values are covered by the known-finding witnesses.
			b[pos] = 0xfd
		}
		return b, "flipped-byte"
	}
}

// c15RequestedHeader is the header of the block the harness requests from the peer (Req runs).
func c15RequestedHeader(tip *wire.BlockHeader) *wire.BlockHeader {
	return &wire.BlockHeader{Version: 1, PrevBlock: *tip.BlockHash(), MerkleRoot: model.DoubleSHA([]byte("c15 requested block")),
		Timestamp: tip.Timestamp + 600, Bits: 0x1d00ffff, Nonce: 99}
}

// hostileRequestedBlock: a block message carrying the requested header (so the node streams its
// transactions to the block handler) whose transaction stream is hostile: a transaction that cannot be
// decoded, a stream that ends early, fewer or more transactions than announced.
func hostileRequestedBlock(c *core.Ctx, tip *wire.BlockHeader, k int) ([]byte, string) {
	t := c.T
	h := c15RequestedHeader(tip)
	announced := uint64(1 + t.Draw(4))
	good := t.Draw(int(announced) + 1)
	var txs []*wire.MsgTx
	for i := 0; i < good; i++ {
		txs = append(txs, nw.MakeTx(uint32(1000*k+i), t.Draw(30)))
	}
	pl := nw.BlockPayload(h, announced, txs)
	name := "requested-block:"
	switch t.Draw(5) {
	case 0: // a transaction with an absurd input count
		pl = append(pl, 1, 0, 0, 0, 0xff, 0xff, 0xff, 0xff, 0xff, 0xff, 0xff, 0xff, 0x0f)
		pl = append(pl, make([]byte, t.Draw(60))...)
		name += "tx-input-count-huge"
	case 1: // a transaction whose script length points beyond the message
		b := nw.TxBytes(nw.MakeTx(uint32(k), 10))
		b[41] = 0xfd
		b = append(b[:42], append([]byte{0xff, 0xff}, b[42:]...)...)
		pl = append(pl, b...)
		name += "tx-script-length-beyond-payload"
	case 2: // the stream ends in the middle of a transaction
		b := nw.TxBytes(nw.MakeTx(uint32(k), 25))
		pl = append(pl, b[:1+t.Draw(len(b)-1)]...)
		name += "cut-mid-tx"
	case 3: // fewer transactions than announced, nothing else
		name += "fewer-txs-than-announced"
	default: // random bytes where a transaction should start
		b := make([]byte, 1+t.Draw(80))
		t.Bytes(b)
		for i := range b {
			if b[i] >= 0xfe {
				// a 0xfe/0xff varint prefix declares a count or script length of up to 2^64 taken from the
				// random bytes after it; mid-size values (GBs) are allocated by the dependency (known
				// findings KF20/KF21) and make the outcome depend on this machine's memory
				b[i] = 0xfd
			}
		}
		pl = append(pl, b...)
		name += "random-tx-bytes"
	}
	if t.Chance(1, 2) {
		return nw.FrameExt(wire.CmdBlock, pl, uint64(len(pl))), name + "(ext)"
	}
	return nw.Frame(wire.CmdBlock, pl), name
}

func includeKnown() bool { return os.Getenv("VERIF_INCLUDE_KNOWN") == "1" }

type c15cfg struct {
	K     string `json:"k"`
	Tx    bool   `json:"tx"`
	Stage int    `json:"stage"`
	N     int    `json:"n,omitempty"`
	// Req: once the node is ready a block is requested from the peer (RequestBlock), so that block
	// messages are streamed through the block handler instead of being skipped
	Req bool `json:"req,omitempty"`
	// Long > 0: the repository holds a chain of that many headers (more than MaxBranchDepth) and the
	// proof-of-work check is off, standing in for a peer with hash power: its headers pass the work
	// check and reach the branch-depth, duplicate and fork logic of ProcessHeader
	Long int `json:"long,omitempty"`
}

type c15msg struct {
	K    string `json:"k"`
	Name string `json:"name"`
	Hex  string `json:"hex"`
}

func runC15(c *core.Ctx) {
	t := c.T
	var cfg c15cfg
	var scripted []c15msg
	if c.Script != nil {
		json.Unmarshal(c.Script[0], &cfg)
		for _, raw := range c.Script[1:] {
			var m c15msg
			json.Unmarshal(raw, &m)
			scripted = append(scripted, m)
		}
	} else {
		cfg = c15cfg{K: "config", Tx: t.Chance(1, 2), Stage: t.Draw(3), N: 1 + t.Draw(4)}
		cfg.Req = cfg.Stage == 2 && t.Chance(1, 2)
		if cfg.Stage == 2 && !cfg.Req && t.Chance(1, 3) {
			cfg.Long = 146 + t.Draw(60)
			cfg.N = 2 + t.Draw(5)
		}
	}
	c.Record(cfg)
	withTx, stage := cfg.Tx, cfg.Stage
	w := nw.New(c, nw.Options{TxManager: withTx, ProductionRepo: cfg.Long == 0, NoNode: c.Dry})
	var chain []bitcoin.Hash32 // best chain by height before the hostile stream (Long runs)
	if cfg.Long > 0 {
		chain = c15BuildChain(w, cfg.Long)
	}
	// All hostile messages are generated up front, before any delivery decision, so that a dry run
	// (script generation without the system) consumes the tape exactly like the real run.
	if c.Script == nil {
		for i := 0; i < cfg.N; i++ {
			var b []byte
			var name string
			if cfg.Long > 0 && t.Chance(3, 4) {
				b, name = hostileForkHeaders(c, w, chain, i+1)
			} else {
				b, name = hostileBytes(c, w, i+1, cfg.Req)
			}
			scripted = append(scripted, c15msg{K: "send", Name: name, Hex: hex.EncodeToString(b)})
		}
	}
	if c.Dry {
		for _, m := range scripted {
			c.Record(m)
		}
		return
	}
	stages := []string{"before-handshake", "during-verification", "ready"}
	p := w.AddNode(false)
	switch stage {
	case 0:
		p.AutoVersion = false
		p.VerifyReply = nil
	case 1:
		p.VerifyReply = nil
	}
	w.NoDelay = true
	w.Pump()
	w.NoDelay = false
	c.Event("config txManager=%v stage=%s", withTx, stages[stage])
	c.Probe("stage:" + stages[stage])
	if cfg.Long > 0 {
		c.Probe("long-chain")
	}
	if stage == 2 && !p.Node.IsReady() {
		c.Fail("c15.setup", "not-ready", "the node did not verify against the default scripted peer")
	}
	heightBefore := w.Repo.Height()
	blockTxs, blockHandlerDone := 0, make(chan error, 4)
	if cfg.Req && p.Node.IsReady() {
		tip, _ := w.Repo.Header(w.Ctx, w.Repo.Height())
		hash := *c15RequestedHeader(tip).BlockHash()
		err := p.Node.RequestBlock(w.Ctx, hash, func(ctx context.Context, header *wire.BlockHeader, txCount uint64, txChannel <-chan *wire.MsgTx) error {
			for range txChannel {
				blockTxs++
			}
			blockHandlerDone <- nil
			return nil
		}, func(context.Context) {})
		c.Event("block requested from the peer -> %v", err)
		c.Probe("block-requested")
		w.Pump()
	}
	for i := 0; i < len(scripted) && !p.Returned; i++ {
		b, _ := hex.DecodeString(scripted[i].Hex)
		name := scripted[i].Name
		c.Record(scripted[i])
		c.Event("peer sends hostile %s (%d bytes)", name, len(b))
		c.Fault("hostile:" + kindOnly(name))
		p.Send(b)
		w.Pump()
	}
	// the peer closes; the node's Run must return
	p.Conn.CloseRemote()
	c.Event("peer closes")
	for i := 0; i < 30 && !p.Returned; i++ {
		w.Advance(10 * time.Second)
	}
	c.Nontrivial()
	select {
	case <-blockHandlerDone:
		c.Probe("requested-block-streamed-to-handler")
		c.Note("block handler received %d transactions", blockTxs)
	default:
	}
	if !p.Returned {
		c.Fail("c15.run-returns-after-close", "still-running", "the node's Run had not returned 5 simulated minutes after the peer closed the connection")
	} else {
		c.Probe("run-returned")
	}
	// other connections and the repositories are unaffected
	if w.Repo.Height() < heightBefore {
		c.Fail("c15.repository-unaffected", "height-decreased", "header repository height went from %d to %d", heightBefore, w.Repo.Height())
	}
	if _, err := w.Repo.Hash(w.Ctx, w.Repo.Height()); err != nil {
		c.Fail("c15.repository-unaffected", "tip-unreadable", "Hash(tip) failed after the hostile stream: %v", err)
	}
	if cfg.Long > 0 {
		c15RepositoryOracle(c, w, chain)
	}
	q := w.AddNode(false)
	w.NoDelay = true
	w.Pump()
	nonce := uint64(0x7700000000000000) | uint64(t.Draw(1<<30))
	q.Send(nw.Frame(wire.CmdPing, nw.PingPayload(nonce)))
	w.Pump()
	if !q.Node.IsReady() || !q.PongFor(nonce) {
		c.Fail("c15.other-connections-unaffected", "second-connection-broken", "a well behaved second connection did not verify and answer a ping after the hostile stream (ready=%v pong=%v)", q.Node.IsReady(), q.PongFor(nonce))
	} else {
		c.Probe("second-connection-ok")
	}
	w.Shutdown()
}

// c15BuildChain extends the fresh repository (difficulty off) by n deterministic headers and returns the
// best chain's hashes by height.
func c15BuildChain(w *nw.World, n int) []bitcoin.Hash32 {
	tip, _ := w.Repo.Header(w.Ctx, w.Repo.Height())
	chain := []bitcoin.Hash32{*tip.BlockHash()}
	prev, ts := *tip.BlockHash(), tip.Timestamp
	for i := 1; i <= n; i++ {
		ts += 600
		h := &wire.BlockHeader{Version: 1, PrevBlock: prev, MerkleRoot: model.DoubleSHA([]byte(fmt.Sprintf("c15 chain %d", i))),
			Timestamp: ts, Bits: 0x1d00ffff, Nonce: uint32(i)}
		if err := w.Repo.ProcessHeader(w.Ctx, h); err != nil {
			panic(fmt.Sprintf("c15 chain header %d refused: %v", i, err))
		}
		prev = *h.BlockHash()
		chain = append(chain, prev)
	}
	return chain
}

// hostileForkHeaders: a well-formed headers message whose 1-3 headers hang off known headers at chosen
// depths below the tip (around MaxBranchDepth in particular), repeat a known header, or hang off each
// other; with the work check off (Long runs) they reach everything in ProcessHeader behind it.
func hostileForkHeaders(c *core.Ctx, w *nw.World, chain []bitcoin.Hash32, k int) ([]byte, string) {
	t := c.T
	tipHeight := len(chain) - 1
	depths := []int{0, 1, 2, 100, 143, 144, 145, 146, tipHeight - 1, tipHeight}
	var hs []*wire.BlockHeader
	name := "headers-fork"
	n := 1 + t.Draw(3)
	for i := 0; i < n; i++ {
		d := depths[t.Draw(len(depths))]
		if t.Chance(1, 4) {
			d = t.Draw(tipHeight + 1)
		}
		if d > tipHeight {
			d = tipHeight
		}
		parentHeight := tipHeight - d
		parent, _ := w.Repo.Header(w.Ctx, parentHeight)
		h := &wire.BlockHeader{Version: 1, PrevBlock: chain[parentHeight], MerkleRoot: model.DoubleSHA([]byte(fmt.Sprintf("c15 fork %d %d", k, i))),
			Timestamp: parent.Timestamp + 600, Bits: 0x1d00ffff, Nonce: uint32(1000*k + i)}
		switch t.Draw(6) {
		case 0: // a header the repository already has
			if parentHeight < tipHeight {
				h, _ = w.Repo.Header(w.Ctx, parentHeight+1)
				name += fmt.Sprintf(":known@%d", parentHeight+1)
				hs = append(hs, h)
				continue
			}
		case 1: // hangs off the previous header of this message
			if len(hs) > 0 {
				h.PrevBlock = *hs[len(hs)-1].BlockHash()
				h.Timestamp = hs[len(hs)-1].Timestamp + 600
				name += ":child"
				hs = append(hs, h)
				continue
			}
		}
		name += fmt.Sprintf(":depth-%d", d)
		hs = append(hs, h)
	}
	return nw.Frame(wire.CmdHeaders, nw.HeadersPayload(hs)), name
}

// c15RepositoryOracle (Long runs): "the repositories are unaffected" by what the repository refused.
// The best chain up to the lowest fork point of an accepted header is what it was, and every header the repository refused (and
// did not know before) is unknown to every lookup afterwards; every hash it reports a height for is
// backed by a header with that hash.
func c15RepositoryOracle(c *core.Ctx, w *nw.World, chain []bitcoin.Hash32) {
	// headers the repository accepted may legitimately reorganise the chain above their fork point
	heightOf := map[bitcoin.Hash32]int{}
	for h := range chain {
		heightOf[chain[h]] = h
	}
	accepted := map[bitcoin.Hash32]bool{}
	unchangedUpTo := len(chain) - 1
	for _, call := range w.Rec.Calls() {
		if call.Name == "headers.ProcessHeader.result" && call.Err == nil {
			accepted[*call.Hash] = true
			if ph, ok := heightOf[*call.Prev]; ok && !call.KnownBefore && ph < unchangedUpTo {
				unchangedUpTo = ph
			}
		}
	}
	for h := 0; h <= unchangedUpTo; h++ {
		got, err := w.Repo.Hash(w.Ctx, h)
		if err != nil || got == nil || !got.Equal(&chain[h]) {
			c.Fail("c15.repository-unaffected", "best-chain-changed", "Hash(%d) = %v, %v after the hostile stream, was %s, and no accepted header forks off at or below that height", h, got, err, chain[h])
			return
		}
	}
	refused := 0
	for _, call := range w.Rec.Calls() {
		if call.Name != "headers.ProcessHeader.result" {
			continue
		}
		x := *call.Hash
		if call.Err != nil && !call.KnownBefore && !accepted[x] {
			refused++
			if ht := w.Repo.HashHeight(x); ht >= 0 {
				c.Fail("c15.repository-unaffected", "refused-header-has-height", "header %s was refused (%v) but HashHeight reports %d afterwards", x, call.Err, ht)
				return
			}
			if ht, longest, err := w.Repo.CheckHeader(w.Ctx, x); err == nil {
				c.Fail("c15.repository-unaffected", "refused-header-known", "header %s was refused (%v) but CheckHeader reports height %d, best chain %v", x, call.Err, ht, longest)
				return
			}
			if hd, ht, _, err := w.Repo.GetHeader(w.Ctx, x); err == nil && hd != nil {
				c.Fail("c15.repository-unaffected", "refused-header-returned", "header %s was refused (%v) but GetHeader returns a header (%s at %d)", x, call.Err, hd.BlockHash(), ht)
				return
			}
			continue
		}
		if ht := w.Repo.HashHeight(x); ht >= 0 {
			hd, _, _, err := w.Repo.GetHeader(w.Ctx, x)
			if err != nil || hd == nil || !hd.BlockHash().Equal(&x) {
				c.Fail("c15.repository-unaffected", "height-without-header", "HashHeight(%s) = %d but GetHeader returns %v, %v", x, ht, hd, err)
				return
			}
		}
	}
	if refused > 0 {
		c.Probe("header-refused-by-repository")
	}
	if len(accepted) > 0 {
		c.Probe("header-accepted-by-repository")
	}
}

func kindOnly(s string) string {
	if len(s) > 12 && s[:12] == "headers-fork" {
		return "headers-fork"
	}
	for i := 0; i < len(s); i++ {
		if s[i] == '(' {
			return s[:i]
		}
	}
	if len(s) > 13 && s[:13] == "headers-bits-" {
		return "headers-bits"
	}
	return s
}

func init() {
	core.Register(&core.Property{
		ID: "C15", Engine: "G", Level: "exploration", Bubble: true,
		Rule: "each run (in an isolated worker process whose death is attributed to the run it announced): a real BitcoinNode before the handshake, during verification or ready receives 1-4 tape-generated hostile byte strings (noise, right magic + noise, bad checksum, declared length too long/short, counts far beyond the payload, extended header with lengths 2^48..2^64-1, headers with every class of bits exponent/mantissa and timestamps, hostile tx encodings, truncation, garbage command bytes, flipped byte in valid messages) fragmented by the tape, in half of the ready-stage runs a block is requested from the peer first and the hostile strings include block messages with the requested header and a hostile transaction stream (undecodable tx, cut mid-tx, fewer/more txs than announced, random bytes); then the peer closes; the process must survive, Run must return within 5 simulated minutes, the header repository must be intact and a second well-behaved connection must verify and answer a ping; production header repository configuration (difficulty and split protection on); in a third of the ready-stage runs without a block request the repository instead holds 146-205 headers with the work check off (a peer with hash power) and 2-6 hostile strings are mostly well-formed headers messages forking off at depths 0..tip (143-146 in particular), repeating known headers or chaining: afterwards the best chain up to the lowest fork point of an accepted header is unchanged, every header the repository refused is unknown to HashHeight/CheckHeader/GetHeader and every reported height is backed by a header with that hash; non-trivial = every run; distinct = distinct hash of the canonical event log",
		Real: nodeReal, Stub: nodeStub,
		Assumptions: []string{"generated declared lengths are either small or at least 2^48; desynchronised streams can still produce mid-size ones, so workers run under RLIMIT_AS 3 GiB: such an allocation fails at once inside the dependency (known findings KF19-KF21, KF31) instead of exhausting this machine",
			"a worker process that dies is re-run alone from the regenerated PRNG stream of that run to confirm and minimise the crash"},
		FaultKinds:   []string{"fragmentation", "delivery-delay", "hostile:random-bytes", "hostile:magic+random", "hostile:bad-checksum", "hostile:length-too-long", "hostile:length-too-short", "hostile:count-huge", "hostile:extmsg-length-absurd", "hostile:headers-bits", "hostile:tx-input-count-huge", "hostile:tx-script-length-beyond-payload", "hostile:truncated", "hostile:block-tx-count-huge", "hostile:command-garbage", "hostile:version-mangled", "hostile:inv-type-garbage", "hostile:flipped-byte", "hostile:requested-block:tx-input-count-huge", "hostile:requested-block:tx-script-length-beyond-payload", "hostile:requested-block:cut-mid-tx", "hostile:requested-block:fewer-txs-than-announced", "hostile:requested-block:random-tx-bytes", "hostile:headers-fork"},
		ProbeNames:   []string{"stage:before-handshake", "stage:during-verification", "stage:ready", "run-returned", "second-connection-ok", "block-requested", "requested-block-streamed-to-handler", "long-chain", "header-refused-by-repository", "header-accepted-by-repository"},
		Run:          runC15,
		QuickSeconds: 20, ThoroughSeconds: 600, MinRuns: 300, BatchSize: 25, RunTimeoutSeconds: 180, DryScript: true, MemLimitMB: 3072,
	})
}
