package props

import (
	"context"
	"fmt"
	"os"
	"strings"
	"testing/synctest"
	"time"

	bitcoin_reader "github.com/tokenized/bitcoin_reader"
	"github.com/tokenized/logger"
	"github.com/tokenized/pkg/bitcoin"
	"github.com/tokenized/pkg/wire"

	"verif/sim/core"
	bw "verif/sim/worlds/blockworld"
	nw "verif/sim/worlds/nodeworld"
)

type c16request struct {
	blk      *bw.Block
	complete <-chan error
	abort    chan<- interface{}
	aborted  bool // requester closed abort
	signals  []string
	left     bool
	done     chan struct{}
}

func runC16(c *core.Ctx) {
	t := c.T
	ctx := logger.ContextWithNoLogger(context.Background())
	// the first draw also selects the world (values 0-3 keep the meaning recorded tapes gave them)
	first := t.Draw(6)
	if first >= 4 {
		runC16Stack(c) // full stack: real NodeManager and BitcoinNodes over simulated connections
		return
	}
	concurrent := 1 + first
	delay := []time.Duration{time.Second, 5 * time.Second, 30 * time.Second}[t.Draw(3)]
	nBlocks := 1 + t.Draw(3)
	steps := 5 + t.Draw(60)
	rec := bw.NewRecorder()
	req := &bw.Requestor{}
	noneRate := []int{0, 0, 10, 40}[t.Draw(4)]
	// fault intensity of this run (swarm style; derived from the draws above so that recorded tapes keep
	// their meaning): with a low weight for cuts and drops most downloads finish while stalls, aborts,
	// concurrent downloads and queued requests are still in play
	faultW := []int{10, 3, 1}[(steps+concurrent)%3]
	if faultW == 1 {
		steps *= 3 // low fault intensity: a long phase in which downloads complete while stalls are still active
	}
	// queueAhead: the next request is added while the current one is still in progress
	queueAhead := (steps+nBlocks)%2 == 0
	req.Plan = func(n int) string { return "ok" }
	m := bitcoin_reader.NewBlockManager(rec, req, concurrent, delay)
	// stalled goroutine faults: the code's marked scheduling points may hold a goroutine until released
	parkRate := []int{0, 6, 3}[t.Draw(3)]
	// Engine F (instrumented build only): every statement and lock of the block download code is a
	// scheduling decision of the tape
	var fd *core.FDriver
	if core.FAvailable() {
		fd = core.NewFDriver(t)
		sch := fd.S
		sch.Install()
		defer sch.Uninstall()
		defer fd.Finish(c)
		if os.Getenv("VERIF_FTRACE") == "1" {
			fd.Trace = func(site string, n int) { c.Note("    resume %s (of %d runnable)", site, n) }
		}
		parkRate = 0
		defer func() {
			c.SetInterleaving(sch.Hash(), sch.Steps())
			c.FaultN("schedule:goroutine-stalled", fd.Holds)
		}()
	}
	early := 0
	// settle lets the system run: to quiescence (Engine G), or under the tape's scheduler until idle or
	// an early stop that leaves goroutines in the middle of their calls (Engine F). True when idle.
	settle := func() bool {
		if fd != nil {
			return fd.Settle(early, 200000)
		}
		synctest.Wait()
		return true
	}
	driverCall := func(f func()) (ok bool) {
		if fd == nil {
			f()
			return true
		}
		defer func() {
			if r := recover(); r != nil {
				ok = false // a lock the call needs is held by a parked goroutine: try again later
			}
		}()
		fd.S.DriverCall(f)
		return true
	}
	parker := bw.NewParker(t.Draw, parkRate)
	bitcoin_reader.SimYield = parker.Hook
	defer func() { bitcoin_reader.SimYield = nil }()
	defer parker.ReleaseAll()
	interrupt := make(chan interface{})
	interrupted := false
	mDone := make(chan error, 1)
	go func() { mDone <- m.Run(ctx, interrupt) }()
	c.Event("config concurrent=%d delay=%v blocks=%d steps=%d none-rate=%d", concurrent, delay, nBlocks, steps, noneRate)

	var blocks []*bw.Block
	for i := 0; i < nBlocks; i++ {
		b := bw.MakeBlock(uint32(100+i), 1+t.Draw(6), nw.MakeTx)
		blocks = append(blocks, b)
		rec.Relevant[b.TxIDs[0]] = true
	}
	wrong := bw.MakeBlock(9999, 2, nw.MakeTx)
	handlerOK := map[bitcoin.Hash32]bool{} // a handler for this hash returned nil

	var requests []*c16request
	var cur *c16request
	nextBlock := 0
	planAnswers := map[int]string{}
	req.Plan = func(n int) string {
		if a, ok := planAnswers[n]; ok {
			return a
		}
		return "ok"
	}
	requestsSeen := 0

	addRequest := func() {
		b := blocks[nextBlock]
		var complete <-chan error
		var abort chan<- interface{}
		if !driverCall(func() { complete, abort = m.AddRequest(ctx, b.Hash, 700000+nextBlock+1, rec) }) {
			return
		}
		nextBlock++
		r := &c16request{blk: b, complete: complete, abort: abort, done: make(chan struct{})}
		requests = append(requests, r)
		cur = r
		c.Event("request block%d (%d txs)", nextBlock-1, len(b.Txs))
		if complete == nil {
			r.signals = append(r.signals, "refused")
			close(r.done)
			return
		}
		go func() {
			defer close(r.done)
			select {
			case err, ok := <-complete:
				if !ok {
					r.signals = append(r.signals, "completed")
				} else {
					r.signals = append(r.signals, "value:"+errShortP(err))
				}
			case <-interrupt:
				r.left = true
			}
		}()
	}

	// pump one handler result without blocking
	collect := func() {
		for _, s := range req.All() {
			if s.Started && !s.Returned {
				select {
				case err := <-s.Done:
					s.Returned = true
					s.Result = err
					if err == nil {
						if handlerOK[s.Hash] {
							c.Probe("two-successful-downloads-of-one-block")
							if nextBlock < len(blocks) || len(requests) > 1 && requests[len(requests)-1].blk.Hash != s.Hash {
								c.Probe("two-successful-downloads-with-another-request-queued")
							}
						}
						handlerOK[s.Hash] = true
					}
					c.Event("source%d handler returned %s", s.N, errShortP(err))
				default:
				}
			}
		}
	}
	startHandler := func(s *bw.Source, blk *bw.Block) {
		s.Started = true
		s.Ch = make(chan *wire.MsgTx, 1000)
		h, n := blk.Header, uint64(len(blk.Txs))
		go func() { s.Done <- s.Handler(ctx, h, n, s.Ch) }()
	}
	blockFor := func(s *bw.Source) *bw.Block {
		for _, b := range blocks {
			if b.Hash == s.Hash {
				return b
			}
		}
		return wrong
	}
	serving := map[*bw.Source]*bw.Block{}
	endStream := func(s *bw.Source) {
		if s.Started && !s.Ended {
			close(s.Ch)
			s.Ended = true
		}
	}
	check := func() {
		for _, b := range blocks {
			n := 0
			if !driverCall(func() { n = m.DownloaderCount(b.Hash) }) {
				continue
			}
			if n > concurrent {
				c.Fail("c16.concurrent-downloads-bounded", fmt.Sprintf("count=%d max=%d", n, concurrent), "%d downloaders are registered for one block, the configured maximum is %d", n, concurrent)
			}
		}
		// "finished without error" is observed as the block handler returning nil. A handler goroutine
		// that a stall fault holds between its last signal and its return has finished in every
		// respect but this observation, so the rule waits until no goroutine is parked any more (at
		// the latest the final check, after the fault free epilogue).
		if fd != nil && len(fd.Parked()) > 0 {
			return
		}
		for _, r := range requests {
			for _, sg := range r.signals {
				if sg == "completed" && !handlerOK[r.blk.Hash] {
					c.Fail("c16.complete-only-after-successful-download", "completed-without-success", "a request was signalled complete although no downloader for that block finished without error")
				}
			}
		}
	}

	act := func(faulty bool) {
		early = 0
		if faulty && fd != nil {
			early = 25
		}
		idle := settle()
		collect()
		if idle {
			check()
		}
		if idle && (cur == nil || len(cur.signals) > 0 || cur.left || queueAhead && faulty && t.Chance(1, 6)) {
			if nextBlock < len(blocks) && !interrupted {
				addRequest() // with queueAhead: a second request waits in the manager's queue
				return
			}
		}
		// note new sources and decide how RequestBlock answers next time
		srcs := req.All()
		for ; requestsSeen < len(req.Requests); requestsSeen++ {
		}
		if faulty && t.Chance(noneRate, 100) {
			planAnswers[len(req.Requests)] = []string{"none", "error"}[t.Draw(2)]
			c.Fault("source:not-available")
		}
		type action struct {
			name string
			f    func()
		}
		var acts []action
		for _, s := range srcs {
			s := s
			if s.Returned || s.Dropped && !s.Started {
				continue
			}
			if s.Cancelled && s.Started && !s.Ended {
				// the node closed the block reader on cancel: the stream ends
				acts = append(acts, action{fmt.Sprintf("source%d stream ends (cancelled)", s.N), func() { endStream(s) }})
				if faulty && !s.Dropped {
					// the peer connection can also go away right after the cancel
					acts = append(acts, action{fmt.Sprintf("source%d drops after cancel", s.N), func() {
						c.Fault("source:drop-after-cancel")
						s.Dropped = true
						endStream(s)
						go s.OnStop(ctx)
					}})
				}
				continue
			}
			if !s.Started {
				if s.Cancelled {
					continue // cancelled before start: the handler is never called
				}
				acts = append(acts, action{fmt.Sprintf("source%d starts handler", s.N), func() {
					b := blockFor(s)
					if faulty && t.Chance(1, 12) {
						b = wrong
						c.Fault("source:wrong-block")
					}
					serving[s] = b
					startHandler(s, b)
					if faulty && !interrupted && t.Chance(1, 10) {
						// shutdown in the very instant the block starts to arrive: Run finds both its
						// start signal and the interrupt ready
						interrupted = true
						c.Fault("shutdown")
						c.Probe("handler-start-and-shutdown-same-instant")
						c.Event("shutdown (same instant)")
						close(interrupt)
					}
				}})
				if faulty {
					acts = append(acts, action{fmt.Sprintf("source%d drops before start", s.N), func() {
						s.Dropped = true
						c.Fault("source:drop-before-start")
						go s.OnStop(ctx)
					}})
				}
				continue
			}
			if !s.Ended {
				b := serving[s]
				if s.Fed < len(b.Txs) {
					acts = append(acts, action{fmt.Sprintf("source%d hands over tx %d", s.N, s.Fed), func() {
						s.Ch <- b.Txs[s.Fed]
						s.Fed++
					}})
					if faulty {
						acts = append(acts, action{fmt.Sprintf("source%d cuts stream at tx %d", s.N, s.Fed), func() {
							c.Fault("source:stream-cut")
							endStream(s)
						}})
						acts = append(acts, action{fmt.Sprintf("source%d drops mid-block", s.N), func() {
							c.Fault("source:drop-mid-block")
							s.Dropped = true
							endStream(s)
							go s.OnStop(ctx)
						}})
					}
				} else {
					acts = append(acts, action{fmt.Sprintf("source%d ends stream", s.N), func() { endStream(s) }})
				}
			}
		}
		// several downloads of one block finishing in the same instant (two peers deliver the last bytes
		// together): every fully fed, still open stream ends now
		var ready []*bw.Source
		for _, s := range srcs {
			if s.Started && !s.Ended && !s.Returned && !s.Cancelled {
				if b := serving[s]; b != nil && s.Fed >= len(b.Txs) {
					ready = append(ready, s)
				}
			}
		}
		if len(ready) >= 2 {
			acts = append(acts, action{fmt.Sprintf("all %d fully fed sources end their streams", len(ready)), func() {
				c.Probe("downloads-finish-in-the-same-instant")
				for _, s := range ready {
					endStream(s)
				}
			}})
		}
		if faulty && cur != nil && len(cur.signals) == 0 && !cur.aborted && cur.abort != nil {
			acts = append(acts, action{"requester aborts", func() {
				if cur.aborted {
					return
				}
				cur.aborted = true
				c.Fault("request:abort")
				close(cur.abort)
				if !interrupted && t.Chance(1, 4) {
					// shutdown arrives in the same instant, before the manager has acted on the abort
					interrupted = true
					c.Fault("shutdown")
					c.Probe("abort-and-shutdown-same-instant")
					c.Event("shutdown (same instant)")
					close(interrupt)
				}
			}})
		}
		if faulty && !interrupted {
			acts = append(acts, action{"shutdown", func() {
				if interrupted {
					return
				}
				interrupted = true
				c.Fault("shutdown")
				close(interrupt)
			}})
		}
		if !faulty {
			parker.ReleaseAll() // no stalls once faults stop
		}
		for _, g := range parker.List() {
			g := g
			acts = append(acts, action{fmt.Sprintf("release %s", g.Site), func() {
				c.Fault("stalled-goroutine-released")
				parker.Release(g)
			}})
		}
		durs := []time.Duration{time.Second, delay, 10 * time.Second, 2 * time.Minute, time.Hour}
		weights := make([]int, 0, len(acts)+1)
		for _, a := range acts {
			w := 10
			switch {
			case a.name == "shutdown":
				w = 1
			case a.name == "requester aborts":
				w = 2
			case strings.Contains(a.name, "cuts stream") || strings.Contains(a.name, "drops"):
				w = faultW
			}
			weights = append(weights, w)
		}
		weights = append(weights, 6) // advance time
		i := t.Weighted(weights)
		if i == len(acts) {
			dw := []int{4, 4, 2, 1, 1}
			if fd != nil {
				// under the statement scheduler every request-delay tick of a long wait costs scheduling
				// steps: the hour (download timeout) is drawn less often
				dw = []int{16, 16, 8, 4, 1}
			}
			d := durs[t.Weighted(dw)]
			if !faulty {
				d = delay
			}
			c.Event("advance %v", d)
			if fd != nil {
				early = 0
				settle()
				fd.Advance(d)
			} else {
				time.Sleep(d)
			}
			c.AddSimTime(int64(d))
			return
		}
		c.Event("%s", acts[i].name)
		acts[i].f()
		if faulty && len(acts) > 1 && t.Chance(1, 5) {
			// a second action in the same instant, before anything has reacted to the first
			j := t.Draw(len(acts))
			if j != i && compatible(acts[i].name, acts[j].name) {
				c.Event("%s (same instant)", acts[j].name)
				c.Probe("two-actions-same-instant")
				acts[j].f()
			}
		}
	}

	for i := 0; i < steps; i++ {
		act(true)
	}
	// fault free epilogue: honest sources, until every request has its terminal signal
	planAnswers = map[int]string{}
	if fd != nil {
		fd.ReleaseAll()
	}
	for i := 0; i < 4000; i++ {
		act(false)
		pending := nextBlock < len(blocks) && !interrupted
		for _, r := range requests {
			if len(r.signals) == 0 && !r.left {
				pending = true
			}
		}
		if !pending {
			break
		}
	}
	early = 0
	settle()
	if fd != nil {
		fd.Finish(c) // from here on everything runs freely
	}
	synctest.Wait()
	collect()
	check()
	c.Nontrivial()
	for i, r := range requests {
		switch {
		case len(r.signals) == 0 && !r.left:
			c.Fail("c16.request-terminates", "no-terminal-signal", "request %d received neither completion nor abort although faults stopped and an honest source was available", i)
		case len(r.signals) > 1:
			c.Fail("c16.exactly-one-terminal-signal", "more-than-one", "request %d received %v", i, r.signals)
		}
		if len(r.signals) == 1 {
			c.Probe("terminal:" + r.signals[0])
			// never both: after an abort value the completion channel must not also be closed
			if r.signals[0] != "completed" && r.signals[0] != "refused" {
				select {
				case _, ok := <-r.complete:
					if !ok {
						c.Fail("c16.exactly-one-terminal-signal", "aborted-and-completed", "request %d was signalled %s and its completion channel was closed as well", i, r.signals[0])
					}
				default:
				}
			}
			if r.aborted && r.signals[0] == "value:Block Aborted" {
				c.Probe("abort-acknowledged")
			}
		}
	}
	// shutdown: everything must return and the downloader registry must be empty
	parker.ReleaseAll()
	if parker.Held > 0 {
		c.Probe("run-with-stalled-goroutines")
	}
	if !interrupted {
		interrupted = true
		close(interrupt)
	}
	returned := false
	for i := 0; i < 150 && !returned; i++ {
		synctest.Wait()
		collect()
		for _, s := range req.All() { // a cancelled running stream ends; unstarted sources never call
			if !s.Dropped && !s.Returned && t.Chance(1, 3) {
				// the peer connection goes away during shutdown
				s.Dropped = true
				c.Fault("source:drop-during-shutdown")
				c.Event("source%d drops during shutdown", s.N)
				if s.Started && !s.Ended {
					endStream(s)
				}
				go s.OnStop(ctx)
				continue
			}
			if s.Started && !s.Ended {
				endStream(s)
			}
		}
		select {
		case <-mDone:
			returned = true
		default:
			time.Sleep(time.Minute)
			c.AddSimTime(int64(time.Minute))
		}
	}
	if !returned {
		c.Fail("c16.manager-run-returns", "run-blocked-after-shutdown", "BlockManager.Run had not returned 150 simulated minutes after shutdown")
	}
	for _, b := range blocks {
		if n := m.DownloaderCount(b.Hash); n != 0 && returned {
			c.Fail("c16.downloader-list-empties", "not-empty", "%d downloaders are still registered after the manager returned", n)
		}
	}
	for _, r := range requests {
		<-r.done
	}
	for _, s := range req.All() {
		if s.Started && !s.Returned {
			select {
			case <-s.Done:
			case <-time.After(3 * time.Hour):
				c.Fail("c16.handler-returns", "handler-blocked", "the block handler of source%d never returned", s.N)
			}
		}
	}
}

// compatible: two actions may be taken in one instant when they do not both act on the same source's
// stream (the closures check their own preconditions only at selection time).
func compatible(a, b string) bool {
	sa, sb := strings.SplitN(a, " ", 2)[0], strings.SplitN(b, " ", 2)[0]
	return sa != sb
}

func init() {
	core.Register(&core.Property{
		ID: "C16", Engine: "G", Level: "exploration", Bubble: true,
		Rule: "one run in three is the full-stack world: a real BlockManager asks a real NodeManager (nodes attached through the verif hook) which picks real BitcoinNodes connected to scripted peers over simulated connections; 1-2 blocks on top of genesis, 1-3 peers that announce the chain after verification and answer getdata with the block, a different block, the first part of the block and then silence, or nothing; the driver delivers pending bytes in tape-chosen chunks between requester aborts, shutdown, peer connection closes and clock steps; then a fault-free epilogue with a fresh honest peer and growing waits; same oracles (one terminal signal, complete only after the block was fully processed, registry bound, BlockManager.Run / node Runs / NodeManager.Wait return, no goroutine left blocked). Otherwise: each run: a real BlockManager.Run with real BlockDownloaders (ConcurrentBlockRequests 1-4, request delay 1/5/30 s) serves 1-3 queued requests from simulated sources; at every quiescent point the tape picks one action among: a source starts its handler, hands over the next transaction, ends its stream, cuts it, drops before/after start (onStop), serves a wrong block, the requester aborts, shutdown, or the clock advances (1 s .. 1 h, firing the start, download, cancel-poll and request-delay timers), or a goroutine held at one of the code's marked scheduling points (verif hook SimYield: a stalled goroutine fault, planned from the tape per site and arrival) is released; cancellation is answered started/not-started by the source's real state; then a fault-free epilogue with honest sources; non-trivial = every run; distinct = distinct hash of the canonical event log (the sequence of chosen actions) Engine F phase (second search phase, instrumented build, see DESIGN.md 2.4): the same actions with Run, Cancel, Stop, HandleBlock, cancelDownloaders, onDownloaderCompleted and the manager loop interleaved at statement granularity by the tape's scheduler (mutexes are TryLock loops, so a goroutine can be parked inside a critical section), tape-chosen stalls and select poll order, pumped clock",
		Real: blockReal, Stub: blockStub,
		Assumptions: []string{"interleavings are controlled at the granularity of source/requester/timer actions; between two quiescent points woken goroutines run in the Go runtime's order and a select with several ready cases is resolved by the runtime (not replayable from the tape); the oracles are order independent",
			"a requester stops listening when shutdown is signalled, as NodeManager.synchronizeBlocks does"},
		FaultKinds:   []string{"source:stream-stalls-mid-block", "source:request-ignored", "source:connection-closed", "fragmentation", "schedule:goroutine-stalled", "source:not-available", "source:wrong-block", "source:drop-before-start", "source:stream-cut", "source:drop-mid-block", "request:abort", "shutdown", "source:drop-during-shutdown", "source:drop-after-cancel", "stalled-goroutine-released"},
		ProbeNames:   []string{"downloads-finish-in-the-same-instant", "full-stack-block-served", "full-stack-terminal:completed", "full-stack-terminal:value:Block Aborted", "two-successful-downloads-of-one-block", "two-successful-downloads-with-another-request-queued", "terminal:completed", "terminal:value:Block Aborted", "abort-acknowledged", "abort-and-shutdown-same-instant", "two-actions-same-instant", "handler-start-and-shutdown-same-instant", "run-with-stalled-goroutines"},
		Run:          runC16,
		QuickSeconds: 20, ThoroughSeconds: 700, MinRuns: 300, BatchSize: 25, RunTimeoutSeconds: 300,
		FQuickSeconds: 15, FThoroughSeconds: 500, MemLimitMB: 3072,
	})
}
