// Package props registers one check per property: the workload mix, oracle groups, non-triviality
// rule and budgets. The worlds do the work.
package props

import (
	"verif/sim/core"
	hw "verif/sim/worlds/headersworld"
)

var headersReal = []string{"headers.Repository (ProcessHeader, Clean, Save, Load, lookups, locators, merkle proof verification: real code)",
	"headers.Branch / Branches (real code)", "pkg/wire, pkg/bitcoin, pkg/merkle_proof (real dependency code)"}
var headersStub = []string{"storage.Storage -> simstore (in-memory simulated disk with mutation log, crash images and error injection)",
	"peers/miners and the header network -> simulator (reference block tree, in-flight multiset with reorder/duplicate/drop)",
	"proof of work: hash and bits checks disabled with the repository's own DisableDifficulty switch on synthetic chains"}

var netFaults = []string{"net-reorder", "net-duplicate", "net-drop", "same-header-from-several-peers"}

func groups(gs ...string) map[string]bool {
	m := map[string]bool{}
	for _, g := range gs {
		m[g] = true
	}
	return m
}

func init() {
	core.Register(&core.Property{
		ID: "C01", Engine: "S", Level: "exploration",
		Rule: "each run: a tape-generated history of header submissions from 1-5 simulated peers over a faulty header network (reorder/duplicate/drop) forming forks, forks of forks, sibling and cousin forks and overtakes by work (bits menu), interleaved with Clean (real and small prune depth), Save and restart; non-trivial = the run contains at least one reorganisation of the reported best chain; distinct = distinct hash of the canonical event log",
		Real: headersReal, Stub: headersStub,
		Assumptions: []string{"synthetic headers carry no proof of work (difficulty checks disabled through the repository's own switch); cumulative work still derives from each header's bits",
			"small prune depths reach the prune/reload paths through the verif hook CleanWithPruneDepth/LoadWithPruneDepth, which call the real clean, prune and load",
			"the reference model is independent code (own hashing, own work formula)"},
		FaultKinds: netFaults,
		ProbeNames: []string{"reorg", "reorg-depth>=2", "orphan-delivered", "duplicate-delivered", "clean", "save", "reload", "prune-dropped-best-chain-history", "clean-with>=2-side-branches", "error-after-insert", "side-branch-forgotten-at-load"},
		Run: func(c *core.Ctx) {
			hw.Run(c, hw.Opts{Groups: groups("c01"), MinSteps: 4, MaxSteps: 60, SmallPrune: true,
				WMint: 60, WDeliver: 20, WClean: 6, WSave: 3, WReload: 4})
		},
		QuickSeconds: 25, ThoroughSeconds: 900, MinRuns: 2000, BatchSize: 250,
	})
}
