// Package props registers one check per property: the workload mix, oracle groups, non-triviality
// rule and budgets. The worlds do the work.
package props

import (
	"verif/sim/core"
	hw "verif/sim/worlds/headersworld"
)

var headersReal = []string{"headers.Repository (ProcessHeader, Clean, Save, Load, lookups, locators, merkle proof verification: real code)",
	"headers.Branch / Branches (real code)", "pkg/wire, pkg/bitcoin, pkg/merkle_proof (real dependency code)"}
var headersStub = []string{"storage.Storage -> simstore (in-memory simulated disk with mutation log, crash images and error injection)",
	"peers/miners and the header network -> simulator (reference block tree, in-flight multiset with reorder/duplicate/drop)",
	"proof of work: hash and bits checks disabled with the repository's own DisableDifficulty switch on synthetic chains"}

var netFaults = []string{"net-reorder", "net-duplicate", "net-drop", "same-header-from-several-peers"}

func groups(gs ...string) map[string]bool {
	m := map[string]bool{}
	for _, g := range gs {
		m[g] = true
	}
	return m
}

var assumeS = []string{"synthetic headers carry no proof of work (difficulty checks disabled through the repository's own switch); cumulative work still derives from each header's bits",
	"small prune depths reach the prune/reload paths through the verif hooks CleanWithPruneDepth/LoadWithPruneDepth, which call the real clean, prune and load; the small depth is always larger than MaxBranchDepth, as 10000 is larger than 144 in production",
	"the reference model is independent code (own hashing, own work formula, own merkle trees)",
	"each storage key write is atomic (as the properties state)"}

var baseProbes = []string{"reorg", "reorg-depth>=2", "orphan-delivered", "duplicate-delivered", "clean", "save", "reload", "reload-generation>=2",
	"prune-dropped-best-chain-history", "clean-with>=2-side-branches", "error-after-insert", "side-branch-forgotten-at-load", "tip-advanced-many"}

func hprop(id, rule string, quick, thorough int, probes []string, faults []string, level string, o hw.Opts) {
	core.Register(&core.Property{
		ID: id, Engine: "S", Level: level, Rule: rule,
		Real: headersReal, Stub: headersStub, Assumptions: assumeS,
		FaultKinds:   append(append([]string{}, netFaults...), faults...),
		ProbeNames:   append(append([]string{}, baseProbes...), probes...),
		Run:          func(c *core.Ctx) { hw.Run(c, o) },
		QuickSeconds: quick, ThoroughSeconds: thorough, MinRuns: 2000, BatchSize: 250, RunTimeoutSeconds: 900,
	})
}

const histRule = "each run: a tape-generated history of header submissions from 1-5 simulated peers over a faulty header network (reorder/duplicate/drop) forming forks, forks of forks, sibling and cousin forks and overtakes by work (bits menu), interleaved with Clean (real and small prune depth), Save and restart; "

func init() {
	hprop("C01", histRule+"after every event tip/work/height and the hash and header at every height are compared with the reference tree; non-trivial = the run contains at least one reorganisation of the reported best chain; distinct = distinct hash of the canonical event log",
		25, 900, nil, nil, "exploration",
		hw.Opts{Groups: groups("c01"), MinSteps: 4, MaxSteps: 60, SmallPrune: true, LargeEvery: 60,
			WMint: 60, WDeliver: 20, WClean: 6, WSave: 3, WReload: 4})

	hprop("C07", histRule+"0-3 subscribers register at tape-chosen times and are drained after every submission; each applies the stream to its own chain; the delivered sequence must equal exactly the headers of the new best chain above the fork point, lowest first; non-trivial = at least one reorganisation while a subscriber is registered; one run in 500 is the backlog scenario instead (submitter goroutine in a synctest bubble, a subscriber that does not read, 10001-10008 headers: every header must reach it once, in order, however long it lets the submitter wait)",
		25, 900, []string{"subscriber-registered", "stream-multi-header-announcement", "submitter-blocked-on-full-subscriber-channel", "backlog-delivered-completely"}, nil, "exploration",
		hw.Opts{Groups: groups("c07"), MinSteps: 4, MaxSteps: 60, SmallPrune: true, LargeEvery: 60,
			WMint: 60, WDeliver: 20, WClean: 4, WSave: 1, WReload: 2, WSubscribe: 8, Backlog: 500})

	hprop("C08", histRule+"plus submissions chosen adversarially relative to the current state (orphan, duplicate of any known header, fork exactly at / one beyond MaxBranchDepth, extension of a deep side tip, fork of a side branch) for MaxBranchDepth in {0,1,2,3,4,6,8,144}; every verdict is compared with the reference verdict and after every non-accepting answer all observables (and, sampled, the bytes of a subsequent Save) must be identical; non-trivial = at least one reorganisation or adversarial refusal",
		25, 900, []string{"adv-orphan", "adv-duplicate-on-side-branch", "adv-duplicate-best-interior", "adv-fork-exactly-at-max-depth", "adv-fork-one-beyond-max-depth", "adv-extend-deep-side-tip", "adv-fork-of-side-branch", "save-compared-after-refusal", "refusal:unknown-parent", "refusal:beyond-depth"}, nil, "exploration",
		hw.Opts{Groups: groups("c08"), MinSteps: 4, MaxSteps: 50, SmallPrune: true, LargeEvery: 60,
			WMint: 40, WDeliver: 15, WClean: 4, WSave: 2, WReload: 3, WAdversarial: 30, WMark: 3, WUnmark: 1})

	hprop("C09", histRule+"headers are also marked invalid and unmarked at tape-chosen points; after every event HashHeight, CheckHeader, GetHeader and PreviousHash of every header ever minted, and tape-chosen GetHeaders ranges, are compared with the reference tree (height, best-chain flag = ancestor-or-equal of the reported tip, predecessor); non-trivial = at least one reorganisation",
		25, 900, nil, nil, "exploration",
		hw.Opts{Groups: groups("c09"), MinSteps: 4, MaxSteps: 60, SmallPrune: true, LargeEvery: 60,
			WMint: 60, WDeliver: 20, WClean: 8, WSave: 2, WReload: 5, WQuery: 8, WMark: 3, WUnmark: 1})

	hprop("C10", histRule+"headers are also marked invalid and unmarked at tape-chosen points; Clean is inserted at tape-chosen positions, 1-3 times back to back; a canonical rendering of every observable before and after must be identical, and the run continues under the tip/ancestry oracle so that side branches must still extend and overtake; one long-chain run in four uses the real prune depth with the chain grown to just below height 10000 and a heavier tip plus a lighter fork that overtakes a few heights later (the best chain passes the automatic-clean height by reorganisation); non-trivial = every run with at least one Clean",
		25, 900, []string{"boundary-mode", "boundary-straddle-attempt", "reorg-skipped-automatic-clean-height", "clean-with>=2-side-branches", "prune-dropped-best-chain-history"}, nil, "exploration",
		hw.Opts{Groups: groups("c10", "c01"), MinSteps: 4, MaxSteps: 60, SmallPrune: true, LargeEvery: 60,
			WMint: 60, WDeliver: 20, WClean: 14, WSave: 2, WReload: 3, WMark: 3, WUnmark: 1})

	hprop("C11", histRule+"headers are also marked invalid and unmarked at tape-chosen points (a saved branch can shrink between two saves); at tape-chosen points the repository is saved and a new one loaded from the same disk (up to several generations); tip, best chain by height and height/best-chain flag of every header within the retained depth must be equal; then original and loaded repository (twin run) receive the same continuation and must give the same verdicts and observables; non-trivial = every run with at least one reload",
		25, 900, []string{"twin-started", "twin-submission", "reload-with-side-branches"}, nil, "exploration",
		hw.Opts{Groups: groups("c11", "c01"), MinSteps: 4, MaxSteps: 60, SmallPrune: true, LargeEvery: 60, Twin: true,
			WMint: 60, WDeliver: 20, WClean: 5, WSave: 3, WReload: 12, WMark: 4, WUnmark: 1})

	hprop("C12", histRule+"for each sampled Clean and Save EVERY prefix of the Write/Remove calls it issued (including empty and full) is turned into a disk image that a fresh repository loads; the load must succeed without panic and report a linked chain of accepted headers with work >= the tip at the last completed Save, and the loaded repository must accept an extension; non-trivial = every run with at least one crash enumeration; crash points are counted under faults_fired",
		25, 900, []string{"crash-op-with>=4-mutations", "crash-with-side-branches"}, []string{"crash-point"}, "fault_enumeration",
		hw.Opts{Groups: groups("c12"), MinSteps: 4, MaxSteps: 40, SmallPrune: true, LargeEvery: 60,
			WMint: 60, WDeliver: 20, WClean: 3, WSave: 2, WReload: 3, WCrash: 10})

	hprop("C17", histRule+"headers are marked invalid (best chain at any depth, side branch, first of branch, not yet seen, already marked, unknown hash) and unmarked at tape-chosen points, with Save/restart in between; after every event the reported tip must be the heaviest chain not built on a marked header, marked headers and descendants must not be flagged best-chain, resubmission must be refused as marked, and after unmarking the header must be accepted again; non-trivial = every run with at least one marking",
		25, 900, []string{"mark:best-chain", "mark:side-branch", "mark:first-of-branch", "mark:not-yet-seen", "mark:already-marked", "mark:unknown-hash", "mark-forced-fallback", "unmark", "accepted-again-after-unmark", "refusal:marked-invalid"}, nil, "exploration",
		hw.Opts{Groups: groups("c17", "c08"), MinSteps: 4, MaxSteps: 50, SmallPrune: true, LargeEvery: 60, ConfigInvalid: true,
			WMint: 60, WDeliver: 20, WClean: 3, WSave: 2, WReload: 5, WMark: 8, WUnmark: 5})

	hprop("C18", histRule+"headers are also marked invalid and unmarked at tape-chosen points; every header carries a real merkle root over 1-9 generated txids; at tape-chosen points a standard merkle proof (with header, or block hash only) is built for a transaction of an accepted block on the best chain, a side branch or in pruned history and must verify with the reference height and best-chain flag; one tape-chosen single-element corruption (txid, path element, index, header merkle root, unknown block hash, header not in the tree, truncated/extended path) must fail; non-trivial = every run with at least one proof",
		25, 900, []string{"proof-on-side-branch", "proof-in-pruned-history", "proof-odd-width", "proof-by-block-hash-only", "corruption:txid", "corruption:path-element", "corruption:index", "corruption:header-merkle-root", "corruption:unknown-block-hash", "corruption:header-not-in-tree", "corruption:path-truncated", "corruption:path-extended"}, nil, "exploration",
		hw.Opts{Groups: groups("c18"), MinSteps: 4, MaxSteps: 50, SmallPrune: true, LargeEvery: 60, Txids: true,
			WMint: 60, WDeliver: 20, WClean: 5, WSave: 2, WReload: 4, WProof: 25, WMark: 3, WUnmark: 1})

	hprop("C19", histRule+"at tape-chosen points GetLocatorHashes(max) for max in {1,2,3,10,50} is checked for membership (best-chain header or first header of a side branch), newest-first order starting at the tip's parent, no duplicates and the maximum; then for every root-to-leaf path of the reference tree (a conformant peer on that chain) the protocol reply to the locator is computed and its first header submitted: it must connect; chain splits are configured at tape-chosen low heights through the verif hook SetSplitsForSimulation (the other chain's first header must be refused), so locators are taken below, between and above configured splits; non-trivial = every run with at least one locator",
		25, 900, []string{"locator-at-height<=1", "locator-on-pruned-chain", "locator-with>=2-side-branches", "conformant-peer-reply", "peer-on-sibling-of-tip", "split-configured", "locator-contains-split-fork-point"}, nil, "exploration",
		hw.Opts{Groups: groups("c19"), MinSteps: 2, MaxSteps: 50, SmallPrune: true, LargeEvery: 60,
			WMint: 60, WDeliver: 20, WClean: 5, WSave: 2, WReload: 4, WLocator: 20, WSplit: 25})
}
