// Package simstore is the simulated disk: an in-memory implementation of storage.Storage that logs
// every mutation, can reconstruct the image after any prefix of the log (crash), and can inject
// errors at chosen calls (I/O error, disk full).
package simstore

import (
	"context"
	"errors"
	"sort"
	"strings"

	"github.com/tokenized/pkg/storage"
)

type Mutation struct {
	Remove bool
	Key    string
	Data   []byte
}

var ErrInjected = errors.New("simstore: injected I/O error")

type Store struct {
	data map[string][]byte
	log  []Mutation

	Reads, Writes, Removes int

	// Fault plan: FailWriteAt / FailRemoveAt / FailReadAt are 1-based indices of the call (counted
	// from the last ResetCounters) that returns ErrInjected; DiskFullFrom makes every mutating call
	// from that index on fail. Zero disables.
	FailWriteAt  int
	FailRemoveAt int
	FailReadAt   int
	DiskFullFrom int
	Fired        int

	nW, nR, nRm int
}

func New() *Store { return &Store{data: map[string][]byte{}} }

func (s *Store) ResetCounters() {
	s.nW, s.nR, s.nRm = 0, 0, 0
	s.FailWriteAt, s.FailRemoveAt, s.FailReadAt, s.DiskFullFrom = 0, 0, 0, 0
}

// MutationCalls is the number of Write+Remove calls since the last ResetCounters.
func (s *Store) MutationCalls() int { return s.nW + s.nRm }

func (s *Store) Read(ctx context.Context, key string) ([]byte, error) {
	s.Reads++
	s.nR++
	if s.FailReadAt != 0 && s.nR == s.FailReadAt {
		s.Fired++
		return nil, ErrInjected
	}
	b, ok := s.data[key]
	if !ok {
		return nil, storage.ErrNotFound
	}
	c := make([]byte, len(b))
	copy(c, b)
	return c, nil
}

func (s *Store) Write(ctx context.Context, key string, body []byte, options *storage.Options) error {
	s.Writes++
	s.nW++
	if (s.FailWriteAt != 0 && s.nW == s.FailWriteAt) || (s.DiskFullFrom != 0 && s.nW+s.nRm >= s.DiskFullFrom) {
		s.Fired++
		return ErrInjected
	}
	c := make([]byte, len(body))
	copy(c, body)
	s.data[key] = c
	s.log = append(s.log, Mutation{Key: key, Data: c})
	return nil
}

func (s *Store) Remove(ctx context.Context, key string) error {
	s.Removes++
	s.nRm++
	if s.FailRemoveAt != 0 && s.nRm == s.FailRemoveAt {
		s.Fired++
		return ErrInjected
	}
	if _, ok := s.data[key]; !ok {
		return storage.ErrNotFound
	}
	delete(s.data, key)
	s.log = append(s.log, Mutation{Remove: true, Key: key})
	return nil
}

func (s *Store) Search(ctx context.Context, query map[string]string) ([][]byte, error) {
	path := query["path"]
	var keys []string
	for k := range s.data {
		if strings.HasPrefix(k, path) {
			keys = append(keys, k)
		}
	}
	sort.Strings(keys)
	var out [][]byte
	for _, k := range keys {
		out = append(out, append([]byte(nil), s.data[k]...))
	}
	return out, nil
}

func (s *Store) Clear(ctx context.Context, query map[string]string) error {
	path := query["path"]
	for _, k := range s.Keys() {
		if strings.HasPrefix(k, path) {
			delete(s.data, k)
			s.log = append(s.log, Mutation{Remove: true, Key: k})
		}
	}
	return nil
}

func (s *Store) List(ctx context.Context, path string) ([]string, error) {
	var keys []string
	for _, k := range s.Keys() {
		if strings.HasPrefix(k, path) {
			keys = append(keys, k)
		}
	}
	return keys, nil
}

func (s *Store) Copy(ctx context.Context, fromKey, toKey string) error {
	b, ok := s.data[fromKey]
	if !ok {
		return storage.ErrNotFound
	}
	c := append([]byte(nil), b...)
	s.data[toKey] = c
	s.log = append(s.log, Mutation{Key: toKey, Data: c})
	return nil
}

// Keys returns the stored keys in sorted order (never in map order).
func (s *Store) Keys() []string {
	keys := make([]string, 0, len(s.data))
	for k := range s.data {
		keys = append(keys, k)
	}
	sort.Strings(keys)
	return keys
}

func (s *Store) Get(key string) ([]byte, bool) {
	b, ok := s.data[key]
	return b, ok
}

// Put writes without logging or fault injection (harness use: legacy files, damaged files).
func (s *Store) Put(key string, b []byte) { s.data[key] = append([]byte(nil), b...) }

// LogLen is the current length of the mutation log.
func (s *Store) LogLen() int { return len(s.log) }

// Log returns the mutations from index from on.
func (s *Store) Log(from int) []Mutation { return s.log[from:] }

// Clone returns an independent copy of the current image (with an empty log and no fault plan).
func (s *Store) Clone() *Store {
	c := New()
	for k, v := range s.data {
		c.data[k] = v // values are never mutated in place
	}
	return c
}

// Apply applies mutations to the image (used to build crash images: snapshot + prefix of the log).
func (s *Store) Apply(ms []Mutation) {
	for _, m := range ms {
		if m.Remove {
			delete(s.data, m.Key)
		} else {
			s.data[m.Key] = m.Data
		}
	}
}

// Digest is a canonical rendering of the image used to compare "bytes written by Save".
func (s *Store) Digest() string {
	var sb strings.Builder
	for _, k := range s.Keys() {
		sb.WriteString(k)
		sb.WriteByte('=')
		sb.Write(s.data[k])
		sb.WriteByte(';')
	}
	return sb.String()
}

var _ storage.Storage = (*Store)(nil)
