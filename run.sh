#!/bin/bash
# Usage: ./run.sh <property> <quick|thorough> [extra simcheck args]
# Rebuilds the simulator against /repo's current working tree (build tag verif) and runs one check.
# Exit status: 0 held, 1 violation (VIOLATION line printed), 2 infrastructure trouble (never a violation).
set -u
cd "$(dirname "$0")/sim" || exit 2
export GOFLAGS=-mod=mod GOPROXY=off GOSUMDB=off GOTOOLCHAIN=local CGO_ENABLED=0
export VERIF_DIR="$(cd .. && pwd)"
GO=go1.26.8
command -v $GO >/dev/null 2>&1 || GO=/opt/veriftools/go1.26.8/bin/go
prop="$1"; tier="${2:-quick}"; shift; shift || true
bin="bin/simcheck.$$"
mkdir -p bin
# VERIF_REPO (default /repo): the tree under test. Only used to try a change in a scratch worktree
# without touching /repo; the registered commands never set it.
export VERIF_REPO="${VERIF_REPO:-/repo}"
modflag=""
if [ "$VERIF_REPO" != "/repo" ]; then
  sed "s#=> /repo#=> $VERIF_REPO#" go.mod > "bin/go.$$.mod"; cp go.sum "bin/go.$$.sum"
  modflag="-modfile=bin/go.$$.mod"
fi
if ! $GO test -c -vet=off $modflag -tags verif -o "$bin" ./cmd/simcheck 2> "bin/build.$$.log"; then
  echo "infrastructure trouble: build failed (the tree under /repo does not compile with the verif hooks):"
  cat "bin/build.$$.log"
  rm -f "$bin" "bin/build.$$.log" "bin/go.$$.mod" "bin/go.$$.sum"
  exit 2
fi
rm -f "bin/build.$$.log"
# Engine F phase (properties that have one): instrument a scratch copy of /repo and build against it.
# If that build is not possible (for instance the tree under test contains a construct the rewriter
# does not handle) the phase is skipped and the check says so; it is never an alarm.
fbin=""
case "$prop" in
  C05|C06|C13|C14|C16|C20)
    fbin="$PWD/bin/simcheck-f.$$"
    if ! ../tools/build_f.sh "$fbin" > "bin/buildf.$$.log" 2>&1; then
      echo "engine F build not available:"; sed 's/^/  /' "bin/buildf.$$.log" | tail -15
      rm -f "$fbin"; fbin=""
    fi
    rm -f "bin/buildf.$$.log"
    ;;
esac
VERIF_F_BIN="$fbin" "./$bin" run "$prop" --tier "$tier" "$@"
rc=$?
rm -f "$bin" "$fbin" "bin/go.$$.mod" "bin/go.$$.sum"
exit $rc
