#!/bin/bash
# Usage: ./run.sh <property> <quick|thorough> [extra simcheck args]
# Rebuilds the simulator against /repo's current working tree (build tag verif) and runs one check.
# Exit status: 0 held, 1 violation (VIOLATION line printed), 2 infrastructure trouble (never a violation).
set -u
cd "$(dirname "$0")/sim" || exit 2
export GOFLAGS=-mod=mod GOPROXY=off GOSUMDB=off GOTOOLCHAIN=local CGO_ENABLED=0
export VERIF_DIR="$(cd .. && pwd)"
GO=go1.26.8
command -v $GO >/dev/null 2>&1 || GO=/opt/veriftools/go1.26.8/bin/go
prop="$1"; tier="${2:-quick}"; shift; shift || true
bin="bin/simcheck.$$"
mkdir -p bin
if ! $GO test -c -vet=off -tags verif -o "$bin" ./cmd/simcheck 2> "bin/build.$$.log"; then
  echo "infrastructure trouble: build failed (the tree under /repo does not compile with the verif hooks):"
  cat "bin/build.$$.log"
  rm -f "$bin" "bin/build.$$.log"
  exit 2
fi
rm -f "bin/build.$$.log"
"./$bin" run "$prop" --tier "$tier" "$@"
rc=$?
rm -f "$bin"
exit $rc
